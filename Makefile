# Builds the simulator runtime and the harness binaries, from /repo's current
# working tree, in three flavours (plain, asan, tsan).  Dependency files
# (-MMD) make every edit under /repo/tlx rebuild what includes it.
REPO ?= /repo
B := build
CXX := g++
STD := -std=c++17
COMMON := $(STD) -DNDEBUG -DTLX_VERIF -g -O1 -fno-omit-frame-pointer -I$(REPO) -I. -Wall -Wno-unused-function -Wno-deprecated-declarations -Wno-tsan
SHIM := -include sim/shim_std.hpp
FLAGS_plain :=
FLAGS_asan := -fsanitize=address,undefined -fno-sanitize-recover=undefined
FLAGS_tsan := -fsanitize=thread
FLAVOURS := plain asan tsan

# harness -> extra tlx sources it links (compiled with the shim, per flavour)
CONC := c10_pool c11_sync c12_cptr c06_pmsort c07_pmerge c04_ps5 t00_selftest
SEQ := c02_btree c16_ring c17_lru_splay
TLX_c10_pool := thread_pool
TLX_c11_sync :=
TLX_t00_selftest :=
TLX_c12_cptr :=
TLX_c06_pmsort := algorithm_parallel_multiway_merge die_core
TLX_c07_pmerge := algorithm_parallel_multiway_merge die_core
TLX_c04_ps5 := thread_pool multi_timer logger_core die_core timestamp
TLX_c02_btree := die_core
TLX_c16_ring := die_core
TLX_c17_lru_splay := die_core

# additional harness TUs (template instantiations split for compile time)
EXTRA_c04_ps5 := c04_a c04_b c04_c c04_d c04_e

HARNESSES := $(foreach h,$(CONC) $(SEQ),$(if $(wildcard harness/$(h).cpp),$(h)))
SEQ_FLAVOURS := plain asan

.PHONY: all setup clean
all: $(foreach h,$(filter $(CONC),$(HARNESSES)),$(foreach f,$(FLAVOURS),$(B)/$(f)/$(h))) \
     $(foreach h,$(filter $(SEQ),$(HARNESSES)),$(foreach f,$(SEQ_FLAVOURS),$(B)/$(f)/$(h)))
setup: all

# the runtime: never instrumented
$(B)/rt.o: sim/rt.cpp sim/rt.hpp
	@mkdir -p $(B)
	$(CXX) $(STD) -O2 -g -fno-omit-frame-pointer -c sim/rt.cpp -o $@
$(B)/san_opts.o: sim/san_opts.cpp
	@mkdir -p $(B)
	$(CXX) $(STD) -O1 -g -c sim/san_opts.cpp -o $@

SRC_thread_pool := thread_pool.cpp
SRC_multi_timer := multi_timer.cpp
SRC_timestamp := timestamp.cpp
SRC_logger_core := logger/core.cpp
SRC_die_core := die/core.cpp
SRC_algorithm_parallel_multiway_merge := algorithm/parallel_multiway_merge.cpp
tlxsrc = $(REPO)/tlx/$(SRC_$(1))

define FLAVOUR_RULES
$(B)/$(1)/tlx_%.o: $(B)/$(1)/.dir
	$(CXX) $(COMMON) $(SHIM) $$(FLAGS_$(1)) -MMD -MP -c $$(call tlxsrc,$$*) -o $$@
$(B)/$(1)/%.o: harness/%.cpp $(B)/$(1)/.dir
	$(CXX) $(COMMON) $(SHIM) $$(FLAGS_$(1)) -MMD -MP -c $$< -o $$@
$(B)/$(1)/.dir:
	@mkdir -p $(B)/$(1) && touch $$@
endef
$(foreach f,$(FLAVOURS),$(eval $(call FLAVOUR_RULES,$(f))))

define LINK_RULE
$(B)/$(2)/$(1): $(B)/$(2)/$(1).o $(foreach e,$(EXTRA_$(1)),$(B)/$(2)/$(e).o) $(foreach t,$(TLX_$(1)),$(B)/$(2)/tlx_$(t).o) $(B)/rt.o $(B)/san_opts.o
	$(CXX) $$(FLAGS_$(2)) -o $$@ $$^ -lpthread
endef
$(foreach h,$(CONC) $(SEQ),$(foreach f,$(FLAVOURS),$(eval $(call LINK_RULE,$(h),$(f)))))

.SECONDARY:
clean:
	rm -rf $(B)

-include $(wildcard $(B)/*/*.d)
