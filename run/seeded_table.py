#!/usr/bin/env python3
"""Regenerates the table of seeded changes in DESIGN.md (section 12) from
seeded/*/meta.json."""
import glob, json, os, re
VERIF = os.path.dirname(os.path.dirname(os.path.abspath(__file__)))
rows = []
for mpath in sorted(glob.glob(os.path.join(VERIF, "seeded", "*", "meta.json"))):
    m = json.load(open(mpath))
    name = m["name"]
    first_line = ""
    patch = open(os.path.join(os.path.dirname(mpath), "patch.diff")).read()
    files = sorted(set(re.findall(r"^\+\+\+ b/(\S+)", patch, re.M)))
    res = []
    for prop, r in sorted(m.get("check_results", {}).items()):
        if r["exit"] == 1:
            res.append("**%s catches** (%s; %ss at scale %s)" % (prop, ", ".join(sorted(set(c.split(":")[0] + (":" + c.split(":")[1] if c.startswith(("asan", "tsan", "ubsan")) and ":" in c else "") for c in r["violation_classes"]))[:4]), int(r["wall_s"]), r["scale"]))
        elif r["exit"] == 0:
            res.append("%s misses" % prop)
        else:
            res.append("%s exit %d" % (prop, r["exit"]))
    hist = m.get("history", "")
    rows.append("| %s | %s | %s | %s | %s%s |" % (name, m["property"], ", ".join(os.path.basename(f) for f in files), m.get("needs", "").replace("|", "/"),
                                            "; ".join(res) or "not run yet", (" — " + hist) if hist else ""))
table = "| name | property | changed | needs, to manifest | registered checks |\n|---|---|---|---|---|\n" + "\n".join(rows)
p = os.path.join(VERIF, "DESIGN.md")
s = open(p).read()
if "SEEDED_TABLE" in s and "<!-- SEEDED_TABLE_BEGIN -->" not in s:
    s = s.replace("SEEDED_TABLE", "<!-- SEEDED_TABLE_BEGIN -->\n<!-- SEEDED_TABLE_END -->")
s = re.sub(r"<!-- SEEDED_TABLE_BEGIN -->.*?<!-- SEEDED_TABLE_END -->", "<!-- SEEDED_TABLE_BEGIN -->\n" + table + "\n<!-- SEEDED_TABLE_END -->", s, flags=re.S)
# ---- behaviour-preserving variants (section 14) ----
nrows = []
for mpath in sorted(glob.glob(os.path.join(VERIF, "neutral", "*", "meta.json"))):
    m = json.load(open(mpath))
    patch = open(os.path.join(os.path.dirname(mpath), "patch.diff")).read()
    files = sorted(set(re.findall(r"^\+\+\+ b/(\S+)", patch, re.M)))
    added = len(re.findall(r"^\+[^+]", patch, re.M)); removed = len(re.findall(r"^-[^-]", patch, re.M))
    res = "; ".join("%s exit %d (%ss)" % (k, v["exit"], int(v["wall_s"])) for k, v in sorted(m.get("check_results", {}).items())) or "not run yet"
    nrows.append("| %s | %s | %s (+%d/-%d) | %s | %s |" % (m["name"], m["property"], ", ".join(os.path.basename(f) for f in files), added, removed,
                                                     m.get("needs", "").replace("|", "/"), ("**quiet**: " if m.get("quiet") else "**ALARM**: ") + res))
ntable = "| name | property | changed | what the variant does differently | registered checks (full quick tier) |\n|---|---|---|---|---|\n" + "\n".join(nrows)
if "<!-- NEUTRAL_TABLE_BEGIN -->" in s:
    s = re.sub(r"<!-- NEUTRAL_TABLE_BEGIN -->.*?<!-- NEUTRAL_TABLE_END -->", "<!-- NEUTRAL_TABLE_BEGIN -->\n" + ntable + "\n<!-- NEUTRAL_TABLE_END -->", s, flags=re.S)
open(p, "w").write(s)
print(table)
print(ntable)
