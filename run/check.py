#!/usr/bin/env python3
"""Driver of the deterministic-simulation checks (DESIGN.md 3.5, 3.6, 8).

  python3 run/check.py <Cxx> --tier quick|thorough
  python3 run/check.py <Cxx> --replay <replay.json>

Builds the harness from /repo's working tree, runs seeded simulated runs on
pinned worker processes, gates / shrinks / replays every violation, matches
known findings, writes evidence/<id>.json.

exit 0: property held on everything explored (KNOWN-FINDING lines allowed)
exit 1: VIOLATION property=<id> replay=<path> printed (gated, minimised, replayed)
exit 2: machinery fault (build failure, non-reproducible candidate, ...)
"""
import argparse
import collections
import json
import os
import queue
import re
import subprocess
import sys
import tempfile
import threading
import time

VERIF = os.path.dirname(os.path.dirname(os.path.abspath(__file__)))
BUILD = os.path.join(VERIF, "build")
TMP = os.path.join(BUILD, "tmp")
NCPU = min(16, os.cpu_count() or 1)

# property -> harness, run counts per tier and flavour, description of parts
PROPS = {
    "C10": dict(harness="c10_pool", concurrent=True,
                runs=dict(quick=dict(plain=400000, asan=40000, tsan=40000),
                          thorough=dict(plain=8000000, asan=800000, tsan=800000)),
                real=["tlx/thread_pool.cpp", "tlx/thread_pool.hpp", "tlx/delegate.hpp", "tlx/container/simple_vector.hpp"],
                stub=["std::thread", "std::mutex", "std::condition_variable", "std::atomic (scheduler shims over real ::std objects)"]),
    "C11": dict(harness="c11_sync", concurrent=True,
                runs=dict(quick=dict(plain=200000, asan=20000, tsan=20000),
                          thorough=dict(plain=4000000, asan=400000, tsan=400000)),
                real=["tlx/semaphore.hpp", "tlx/thread_barrier_mutex.hpp", "tlx/thread_barrier_spin.hpp"],
                stub=["std::mutex", "std::condition_variable", "std::atomic", "std::this_thread::yield", "std::thread (scheduler shims over real ::std objects)"]),
    "C12": dict(harness="c12_cptr", concurrent=True,
                runs=dict(quick=dict(plain=200000, asan=40000, tsan=40000),
                          thorough=dict(plain=4000000, asan=800000, tsan=800000)),
                real=["tlx/counting_ptr.hpp (CountingPtr, ReferenceCounter, deleters)"],
                stub=["std::atomic", "std::thread (scheduler shims over real ::std objects)"]),
    "C06": dict(harness="c06_pmsort", concurrent=True,
                runs=dict(quick=dict(plain=200000, asan=30000, tsan=30000),
                          thorough=dict(plain=4000000, asan=600000, tsan=600000)),
                real=["tlx/sort/parallel_mergesort.hpp", "tlx/algorithm/multiway_merge.hpp", "tlx/algorithm/multisequence_partition.hpp",
                      "tlx/algorithm/multiway_merge_splitting.hpp", "tlx/thread_barrier_mutex.hpp", "tlx/container/loser_tree.hpp",
                      "tlx/container/simple_vector.hpp"],
                stub=["std::thread", "std::mutex", "std::condition_variable (scheduler shims over real ::std objects)"]),
    "C07": dict(harness="c07_pmerge", concurrent=True,
                runs=dict(quick=dict(plain=200000, asan=30000, tsan=30000),
                          thorough=dict(plain=4000000, asan=600000, tsan=600000)),
                real=["tlx/algorithm/parallel_multiway_merge.hpp", "tlx/algorithm/parallel_multiway_merge.cpp",
                      "tlx/algorithm/multiway_merge_splitting.hpp", "tlx/algorithm/multisequence_partition.hpp",
                      "tlx/algorithm/multiway_merge.hpp", "tlx/algorithm/merge_advance.hpp", "tlx/container/loser_tree.hpp"],
                stub=["std::thread (scheduler shim over real ::std::thread)"]),
    "C04": dict(harness="c04_ps5", concurrent=True, watchdog=dict(quick=30, thorough=300),
                runs=dict(quick=dict(plain=100000, asan=15000, tsan=15000),
                          thorough=dict(plain=2000000, asan=300000, tsan=300000)),
                expected_hook_probes=["ps5.big_step.flipped", "ps5.big_step.unflipped", "ps5.big_step.multiple_parts", "ps5.big_step.equal_bucket_done",
                                      "ps5.seq_sample_sort_step.flipped", "ps5.seq_sample_sort_step.unflipped", "ps5.free_work.sample_sort_level",
                                      "ps5.free_work.mkqs_level", "ps5.mkqs.bktcache_reallocated", "ps5.lcp_of_flipped_step", "ps5.lcp_of_unflipped_step",
                                      "ps5.smallsort.all_done.freed_mkqs_level", "ps5.smallsort.all_done.freed_sample_sort_level"],
                real=["tlx/sort/strings_parallel.hpp", "tlx/sort/strings/parallel_sample_sort.hpp", "tlx/sort/strings/sample_sort_tools.hpp",
                      "tlx/sort/strings/string_ptr.hpp", "tlx/sort/strings/string_set.hpp", "tlx/sort/strings/insertion_sort.hpp",
                      "tlx/thread_pool.cpp", "tlx/thread_pool.hpp", "tlx/multi_timer.cpp", "tlx/logger/core.cpp", "tlx/die/core.cpp"],
                stub=["std::thread", "std::mutex", "std::condition_variable", "std::atomic", "std::minstd_rand (seeded from the run, not from a heap address)",
                      "std::thread::hardware_concurrency (= worker count of the run)"]),
    "C16": dict(harness="c16_ring", concurrent=True, single_task=True,
                runs=dict(quick=dict(plain=200000, asan=40000),
                          thorough=dict(plain=4000000, asan=800000)),
                real=["tlx/container/ring_buffer.hpp", "tlx/container/simple_vector.hpp"],
                stub=["allocator (sim::Alloc as the Allocator argument / class-level operator new[] of the element type): seeded recycling, poisoning, quarantine, canaries, ledger",
                      "element type (lifetime ledger, heap-owning)"]),
    "C17": dict(harness="c17_lru_splay", concurrent=True, single_task=True,
                runs=dict(quick=dict(plain=200000, asan=40000),
                          thorough=dict(plain=4000000, asan=800000)),
                real=["tlx/container/lru_cache.hpp", "tlx/container/splay_tree.hpp"],
                stub=["allocator (sim::Alloc as the Alloc/Allocator argument: list nodes, hash nodes and buckets, splay nodes): seeded recycling, poisoning, quarantine, canaries, ledger",
                      "key type (lifetime ledger, heap-owning) for the splay tree"]),
    "C02": dict(harness="c02_btree", concurrent=True, single_task=True,
                runs=dict(quick=dict(plain=200000, asan=40000),
                          thorough=dict(plain=4000000, asan=800000)),
                expected_hook_probes=["btree.%s.%s.case%d" % (a, b, c) for a in ("erase_one", "erase_iter") for b in ("leaf", "inner") for c in range(1, 7)] +
                                     ["btree.split_leaf_node", "btree.split_inner_node", "btree.merge_leaves", "btree.merge_inner", "btree.shift_left_leaf",
                                      "btree.shift_right_leaf", "btree.shift_left_inner", "btree.shift_right_inner", "btree.bulk_load"],
                real=["tlx/container/btree.hpp", "tlx/container/btree_set.hpp", "tlx/container/btree_multiset.hpp",
                      "tlx/container/btree_map.hpp", "tlx/container/btree_multimap.hpp", "tlx/die/core.cpp"],
                stub=["allocator (sim::Alloc as the Allocator argument, rebound to leaf and inner node types): seeded recycling, poisoning, quarantine, canaries, ledger",
                      "element types (lifetime ledger, heap-owning keys and mapped values)"]),
}

SIM_NAMES = ["strategy", "param", "pct_k", "spurious_permille", "spurious_budget", "notify_choice",
             "hw_concurrency", "rng_seed", "step_bound", "rng_degenerate"]
STRAT_NAMES = {0: "random", 1: "sticky", 2: "pct", 3: "round_robin", 4: "nonpreemptive"}


def log(*a):
    print(*a, flush=True)


def build(harness, flavours):
    targets = ["build/%s/%s" % (f, harness) for f in flavours]
    extra = []
    if os.environ.get("VERIF_REPO"):
        # experiments on a snapshot of the repository (vp run --with-repo); the registered
        # commands never set this and always build from /repo's working tree
        extra = ["REPO=" + os.environ["VERIF_REPO"]]
    # serialise builds: two checks started at the same time share the build directory
    import fcntl
    os.makedirs(BUILD, exist_ok=True)
    with open(os.path.join(BUILD, ".lock"), "w") as lk:
        fcntl.flock(lk, fcntl.LOCK_EX)
        p = subprocess.run(["make", "-C", VERIF, "-j%d" % NCPU, "--no-print-directory"] + extra + targets,
                           stdout=subprocess.PIPE, stderr=subprocess.STDOUT, text=True)
        if p.returncode != 0:
            # a compiler killed under memory pressure (several checks and builds at once) is not a
            # property of the tree: one retry with little parallelism; a real compile error fails again
            log("build failed once, retrying with -j4:\n" + p.stdout[-1500:])
            p = subprocess.run(["make", "-C", VERIF, "-j4", "--no-print-directory"] + extra + targets,
                               stdout=subprocess.PIPE, stderr=subprocess.STDOUT, text=True)
    if p.returncode != 0:
        log(p.stdout[-6000:])
        log("BUILD-FAILURE")
        sys.exit(2)


# ---------------------------------------------------------------------------
# sanitizer report classification

def simplify_func(s):
    s = re.sub(r"\(.*", "", s)
    s = re.sub(r"<.*", "", s)
    return s.strip()


def classify_stderr(text):
    """Return (class, excerpt) from a sanitizer report, or (None, '')."""
    m = re.search(r"ERROR: AddressSanitizer: ([\w-]+)", text)
    kind = None
    if m:
        kind = "asan:" + m.group(1)
    else:
        m = re.search(r"WARNING: ThreadSanitizer: ([\w -]+?) \(pid", text)
        if m:
            kind = "tsan:" + m.group(1).strip().replace(" ", "-")
        else:
            m = re.search(r"runtime error: (.*)", text)
            if m:
                kind = "ubsan:" + re.sub(r"0x[0-9a-f]+|\d+", "N", m.group(1))[:60]
    if not kind:
        return None, ""
    start = m.start()
    func = ""
    for fm in re.finditer(r"#\d+ (?:0x[0-9a-f]+ in )?(.+?) (/\S+?):(\d+)", text[start:]):
        if "/tlx/" in fm.group(2) and "/verif/" not in fm.group(2):
            func = simplify_func(fm.group(1)) + "@" + os.path.basename(fm.group(2))
            break
    if not func and kind.startswith("ubsan"):
        fm = re.search(r"(/\S+/tlx/\S+?):(\d+)", text[max(0, start - 300):start + 300])
        if fm:
            func = os.path.basename(fm.group(1))
    return kind + (":" + func if func else ""), text[start:start + 3000]


# ---------------------------------------------------------------------------
# running workers

def binpath(harness, flavour):
    return os.path.join(BUILD, flavour, harness)


def run_worker(harness, flavour, args, cpu=None, timeout=3600):
    """Run one worker process; return (records, returncode, stderr_text)."""
    cmd = [binpath(harness, flavour)] + args
    if cpu is not None:
        cmd += ["--cpu", str(cpu)]
    with tempfile.TemporaryFile(dir=TMP) as ferr:
        try:
            p = subprocess.run(cmd, stdout=subprocess.PIPE, stderr=ferr, timeout=timeout)
            rc, out = p.returncode, p.stdout
        except subprocess.TimeoutExpired as e:
            rc, out = -999, e.stdout or b""
        ferr.seek(0)
        err = ferr.read().decode("utf-8", "replace")
    recs = []
    for line in out.decode("utf-8", "replace").splitlines():
        if line.startswith("{"):
            try:
                recs.append(json.loads(line))
            except ValueError:
                pass
    return recs, rc, err


def norm_class(cls):
    """Hard crashes of an uninstrumented build show up as SIGSEGV, SIGABRT (glibc
    heap checks) or a crash inside the crash handler, depending on heap state:
    they are one class."""
    if cls and (cls.startswith("crash:SIG") or re.match(r"died:rc=(-\d+|78|79)$", cls)):
        return "crash"
    return cls


def finish_record(rec, rc, err):
    """Attach the sanitizer class parsed from stderr to a failing record."""
    if rec.get("ok"):
        return rec
    if rec.get("cls") == "sanitizer" or rc == 77:
        cls, excerpt = classify_stderr(err)
        rec["cls"] = cls or "sanitizer:unclassified"
        rec["detail"] = excerpt[:1500]
    rec["cls"] = norm_class(rec.get("cls"))
    return rec


class Agg:
    """Streaming aggregation of run records (per flavour and in total)."""

    def __init__(self):
        self.n = collections.Counter()
        self.steps = 0
        self.decisions = 0
        self.preempts = 0
        self.sync = 0
        self.faults = collections.Counter()
        self.rprobes = collections.Counter()
        self.probes = collections.Counter()
        self.probe_runs = collections.Counter()
        self.hook_probes = collections.Counter()
        self.hook_probe_runs = collections.Counter()
        self.strat = collections.Counter()
        self.threads = collections.Counter()
        self.fps = set()
        self.fps_all = set()
        self.samples = []
        self.failures = []
        self.aborted = False
        self.lock = threading.Lock()

    def add(self, flavour, rec, concurrent, single_task=False):
        with self.lock:
            self.n[flavour] += 1
            if concurrent:
                self.steps += rec.get("steps", 0)
                self.decisions += rec.get("dec", 0)
                self.preempts += rec.get("pre", 0)
                self.sync += rec.get("sync", 0)
                for k, v in rec.get("f", {}).items():
                    if v:
                        self.faults[k] += v
                        self.faults[k + "_runs"] += 1
                for k, v in rec.get("rp", {}).items():
                    if v:
                        self.rprobes[k] += v
                self.strat[STRAT_NAMES.get(rec.get("strat"), "?")] += 1
                self.threads[rec.get("thr", 0)] += 1
                fp = int(rec.get("fp", "0"), 16)
                self.fps_all.add(fp)
                if single_task:
                    if rec.get("f", {}).get("alloc_recycle", 0) >= 1 and rec.get("sync", 0) >= 8:
                        self.fps.add(fp)
                elif rec.get("thr", 0) >= 2 and rec.get("pre", 0) >= 1 and rec.get("sync", 0) >= 2:
                    self.fps.add(fp)
            else:
                fp = int(rec.get("fp", "0"), 16) if "fp" in rec else None
                if fp is not None:
                    self.fps_all.add(fp)
                    if rec.get("nontrivial"):
                        self.fps.add(fp)
            for k, v in rec.get("p", {}).items():
                self.probes[k] += v
                self.probe_runs[k] += 1
            for k, v in rec.get("hp", {}).items():
                self.hook_probes[k] += v
                self.hook_probe_runs[k] += 1
            if "ops" in rec and rec.get("ok"):
                # candidates for the written-out samples: keep the three richest of the first 40 runs
                self.samples.append(rec)
                self.samples.sort(key=lambda r: (-(min(r.get("pre", 0), 1) + min(r.get("f", {}).get("alloc_recycle", 0), 1)), -len(r.get("ops", [])) - len(r.get("choices", [])) // 8))
                del self.samples[3:]
            if not rec.get("ok"):
                slim = {k: v for k, v in rec.items() if k not in ("choices", "ops", "cfg", "sim")}
                slim["flavour"] = flavour
                slim["detail"] = (slim.get("detail") or "")[:1500]
                self.failures.append(slim)


def wd_args(spec, tier):
    """Wall-clock watchdog per run: runs take micro- to milliseconds (the big default-threshold
    pS5 runs of the thorough tier: seconds), so a run that takes this long hangs."""
    w = spec.get("watchdog", {}).get(tier, 30)
    return ["--watchdog", str(w)]


def run_batch(prop, spec, tier, seed, agg):
    harness = spec["harness"]
    counts = spec["runs"][tier]
    chunks = []
    for flavour, total in counts.items():
        if total <= 0:
            continue
        csize = max(20, min(4000, total // (NCPU * 6) or 1))
        i = 0
        while i < total:
            c = min(csize, total - i)
            chunks.append((flavour, i, c))
            i += c
    # slow flavours first so that the tail is short
    order = {"tsan": 0, "asan": 1, "plain": 2}
    chunks.sort(key=lambda c: (order.get(c[0], 3), c[1]))
    q = queue.Queue()
    for c in chunks:
        q.put(c)
    died = []

    def slot(cpu):
        while True:
            try:
                flavour, first, count = q.get_nowait()
            except queue.Empty:
                return
            # enough evidence of a violation: do not burn the budget on more failing runs
            # (every hanging run costs its watchdog time)
            if len(agg.failures) >= 300 or sum(1 for f in agg.failures if f.get("cls") == "hang_wallclock") >= 8:
                agg.aborted = True
                continue
            while count > 0:
                args = ["--runs", str(first), "1", str(count), "--seed", str(seed), "--tier", tier,
                        "--full-first", "40" if flavour == "plain" else "0"] + wd_args(spec, tier)
                recs, rc, err = run_worker(harness, flavour, args, cpu)
                done = 0
                for r in recs:
                    finish_record(r, rc, err)
                    agg.add(flavour, r, spec["concurrent"], spec.get("single_task", False))
                    done = r["i"] - first + 1
                if rc == 0:
                    break
                if done == 0 or recs[-1].get("ok"):
                    # the worker died without leaving a record for the run
                    idx = first + done
                    cls, excerpt = classify_stderr(err)
                    rec = dict(i=idx, ok=False, cls=norm_class(cls or ("died:rc=%d" % rc)), detail=excerpt[:1500] or err[-800:],
                               flavour=flavour, norecord=True)
                    agg.add(flavour, rec, False)
                    done += 1
                first += done
                count -= done

    threads = [threading.Thread(target=slot, args=(cpu,)) for cpu in range(NCPU)]
    for t in threads:
        t.start()
    for t in threads:
        t.join()
    return died


# ---------------------------------------------------------------------------
# replay files

def write_replay_text(path, cfg, sim, ops, choices, seed=None):
    with open(path, "w") as f:
        f.write("cfg %d %s\n" % (len(cfg), " ".join(map(str, cfg))))
        f.write("sim %d %s\n" % (len(sim), " ".join(map(str, sim))))
        for op in ops:
            f.write("op %d %s\n" % (len(op), " ".join(map(str, op))))
        if seed is not None:
            f.write("seed %d\n" % seed)
        else:
            f.write("choices %d %s\n" % (len(choices), " ".join("%d %d" % (i, v) for i, v in choices)))


_tmp_counter = [0]
_tmp_lock = threading.Lock()


def tmp_name(suffix):
    with _tmp_lock:
        _tmp_counter[0] += 1
        return os.path.join(TMP, "t%d_%d%s" % (os.getpid(), _tmp_counter[0], suffix))


def run_replay(harness, flavour, state, cpu=None, seed=None, watchdog=0):
    """Execute an explicit (cfg, sim, ops, choices) state in a fresh process.
    seed != None: explicit workload, decisions re-sampled from that seed."""
    path = tmp_name(".replay")
    if seed is None and state.get("choices") is None:
        seed = state.get("seed")          # decisions unknown (the run dies without a record): re-derive from the run seed
    write_replay_text(path, state["cfg"], state["sim"], state["ops"], state.get("choices") or [], seed)
    try:
        recs, rc, err = run_worker(harness, flavour, ["--replay", path] + (["--watchdog", str(watchdog)] if watchdog else []), cpu, timeout=900)
    finally:
        try:
            os.unlink(path)
        except OSError:
            pass
    if not recs:
        cls, excerpt = classify_stderr(err)
        return dict(ok=False, cls=norm_class(cls or ("died:rc=%d" % rc)), detail=excerpt[:1500] or err[-800:], fp="0")
    return finish_record(recs[-1], rc, err)


def state_of(rec, seed=None):
    return dict(cfg=list(rec.get("cfg", [])), sim=list(rec.get("sim", [])),
                ops=[list(o) for o in rec.get("ops", [])],
                choices=[list(c) for c in rec["choices"]] if "choices" in rec else None,
                seed=seed)


def parallel_map(items, fn):
    results = [None] * len(items)
    idx = [0]
    lock = threading.Lock()

    def work(cpu):
        while True:
            with lock:
                i = idx[0]
                idx[0] += 1
            if i >= len(items):
                return
            results[i] = fn(items[i], cpu)

    ths = [threading.Thread(target=work, args=(c,)) for c in range(min(NCPU, len(items)))]
    for t in ths:
        t.start()
    for t in ths:
        t.join()
    return results


class Shrinker:
    """Minimise a failing (workload, schedule) while the same violation class
    persists.  Changing the workload shifts the positions of the scheduling
    decisions, so a smaller workload is accepted if it fails the same way under
    its old decision list, with no preemption at all, or under one of a few
    re-sampled schedules (the decision list of that run is then adopted)."""

    RESEEDS = 14

    def __init__(self, harness, flavour, state, cls, deadline, concurrent):
        self.h, self.fl, self.state, self.cls = harness, flavour, state, cls
        self.deadline, self.concurrent = deadline, concurrent
        self.tests = 0
        self.watchdog = 20      # seconds without any progress while re-executing a candidate

    def fails(self, r):
        return (not r.get("ok")) and r.get("cls") == self.cls

    def try_state(self, st):
        """Return st with a failing decision list, or None."""
        if time.time() > self.deadline:
            return None
        variants = [("explicit", None)]
        if self.concurrent:
            if st.get("choices"):
                variants.append(("none", None))
            variants += [("seed", 1000 + k) for k in range(self.RESEEDS)]

        def run(v, cpu):
            kind, seed = v
            s2 = st if kind != "none" else dict(st, choices=[])
            return run_replay(self.h, self.fl, s2, cpu, seed, watchdog=self.watchdog)

        res = parallel_map(variants, run)
        self.tests += len(variants)
        for (kind, seed), r in zip(variants, res):
            if self.fails(r):
                out = dict(st)
                if kind == "none":
                    out["choices"] = []
                elif kind == "seed":
                    if "choices" in r:
                        out["choices"] = [list(c) for c in r["choices"]]
                    else:
                        out["choices"], out["seed"] = None, seed
                return out
        return None

    def ddmin(self, key, explicit_only=False):
        items = self.state[key]
        n = 2
        while len(items) >= 1 and time.time() < self.deadline:
            chunk = max(1, len(items) // n)
            cands = [items[:s] + items[s + chunk:] for s in range(0, len(items), chunk)]
            hit = None
            if explicit_only:
                res = parallel_map(cands, lambda c, cpu: run_replay(self.h, self.fl, dict(self.state, **{key: c}), cpu, watchdog=self.watchdog))
                self.tests += len(cands)
                for c, r in zip(cands, res):
                    if self.fails(r):
                        hit = dict(self.state, **{key: c})
                        break
            else:
                for c in cands:
                    hit = self.try_state(dict(self.state, **{key: c}))
                    if hit:
                        break
            if hit:
                self.state = hit
                items = self.state[key]
                n = max(n - 1, 2)
            else:
                if chunk == 1:
                    break
                n = min(len(items), n * 2)

    def lower_ints(self):
        for i in range(len(self.state["cfg"])):
            v = self.state["cfg"][i]
            for nv in sorted(set([0, 1, v // 2, v - 1])):
                if 0 <= nv < v:
                    c = list(self.state["cfg"])
                    c[i] = nv
                    hit = self.try_state(dict(self.state, cfg=c))
                    if hit:
                        self.state = hit
                        break
        for oi in range(len(self.state["ops"])):
            for ai in range(1, len(self.state["ops"][oi])):
                v = self.state["ops"][oi][ai]
                for nv in sorted(set([0, v // 2, v - 1])):
                    if 0 <= nv < v:
                        ops = [list(o) for o in self.state["ops"]]
                        ops[oi][ai] = nv
                        hit = self.try_state(dict(self.state, ops=ops))
                        if hit:
                            self.state = hit
                            break

    def faults_off(self):
        sim = self.state["sim"]
        if len(sim) >= 10:
            for idx, nv in ((4, 0), (3, 0), (9, 0), (6, 1), (5, 0)):
                if self.state["sim"][idx] != nv:
                    c = list(self.state["sim"])
                    c[idx] = nv
                    hit = self.try_state(dict(self.state, sim=c))
                    if hit:
                        self.state = hit

    def run(self):
        for _ in range(2):
            before = (len(self.state["ops"]), len(self.state["choices"] or []))
            if self.state["ops"]:
                self.ddmin("ops")
            self.lower_ints()
            if self.concurrent:
                self.faults_off()
                if self.state["choices"]:
                    self.ddmin("choices", explicit_only=True)
            if (len(self.state["ops"]), len(self.state["choices"] or [])) == before or time.time() > self.deadline:
                break
        return self.state


# ---------------------------------------------------------------------------
# known findings

def load_known():
    path = os.path.join(VERIF, "known_findings.json")
    if not os.path.exists(path):
        return []
    with open(path) as f:
        return json.load(f).get("findings", [])


def match_known(prop, cls, detail, state, known):
    for k in known:
        if k.get("status") != "known" or k.get("property") != prop:
            continue
        sig = k.get("signature", {})
        if "cls" in sig and not re.search(sig["cls"], cls or ""):
            continue
        if "detail" in sig and not re.search(sig["detail"], detail or ""):
            continue
        ok = True
        for idx, op, val in sig.get("cfg", []):
            v = state["cfg"][idx] if idx < len(state["cfg"]) else 0
            if op == "==" and not v == val:
                ok = False
            if op == "!=" and not v != val:
                ok = False
            if op == ">=" and not v >= val:
                ok = False
            if op == "<=" and not v <= val:
                ok = False
            if op == "%2==" and not (v % 2) == val:
                ok = False
        if ok:
            return k
    return None


# ---------------------------------------------------------------------------

def handle_failures(prop, spec, seed, tier, agg, known):
    """Gate, shrink, replay and classify.  Returns (violations, known_hits, machinery_fault)."""
    harness = spec["harness"]
    by_class = collections.OrderedDict()
    # one candidate per violation class; functional classes are flavour-independent,
    # so the cheapest flavour that shows the class is used
    forder = {"plain": 0, "asan": 1, "tsan": 2}
    cls_flavour = {}
    for r in sorted(agg.failures, key=lambda r: (forder.get(r["flavour"], 3), r["i"])):
        fl = cls_flavour.setdefault(r["cls"], r["flavour"])
        by_class.setdefault((fl, r["cls"]), [])
        if r["flavour"] == fl:
            by_class[(fl, r["cls"])].append(r)
    violations, known_hits, fault = [], {}, False
    seen_final = set()
    t_end = time.time() + (420 if tier == "quick" else 1800)
    per_class = 60 if tier == "quick" else 150
    handled = 0
    for (flavour, cls), recs in by_class.items():
        r0 = recs[0]
        if handled >= 5 and violations:
            log("further failing class not minimised: %s (%d runs, first run %d, flavour %s)" % (cls, len(recs), r0["i"], flavour))
            continue
        handled += 1
        if cls == "machinery":
            log("MACHINERY-FAULT %s: %s" % (cls, r0.get("detail", "")[:300]))
            fault = True
            continue
        # gate: two fresh processes must fail, with the same class and fingerprint.
        # A memory-corrupting defect can show differently inside a long-lived
        # worker than in a fresh process (heap state), so the class that is
        # gated, shrunk and reported is the one the fresh processes agree on;
        # if the flavour at hand does not reproduce, the same run (same seed,
        # hence same workload and decisions) is tried in the asan flavour.
        def gate(fl):
            args = ["--runs", str(r0["i"]), "1", "1", "--seed", str(seed), "--tier", tier, "--full"] + wd_args(spec, tier)
            g = []
            for _ in range(2):
                rr, rc, err = run_worker(harness, fl, args)
                if rr:
                    g.append(finish_record(rr[-1], rc, err))
                else:
                    c2, ex = classify_stderr(err)
                    g.append(dict(ok=False, cls=norm_class(c2 or "died:rc=%d" % rc), fp="0", detail=ex, norecord=True))
            # (a wall-clock hang is cut off at an arbitrary moment: its fingerprint is not comparable)
            good = (not any(x.get("ok") for x in g)) and g[0].get("cls") == g[1].get("cls") and \
                (g[0].get("fp") == g[1].get("fp") or g[0].get("cls") == "hang_wallclock")
            return good, g
        good, g = gate(flavour)
        if (not good or g[0].get("cls") == "crash") and flavour != "asan" and "asan" in spec["runs"][tier] and os.path.exists(binpath(harness, "asan")):
            good2, g2 = gate("asan")
            if good2:
                log("note: run %d (%s, class %s) does not reproduce in a fresh %s process; it does under asan as %s" %
                    (r0["i"], flavour, cls, flavour, g2[0].get("cls")))
                good, g, flavour = good2, g2, "asan"
        if not good:
            log("NON-REPRODUCIBLE candidate property=%s flavour=%s run=%d class=%s gate=%s/%s" %
                (prop, flavour, r0["i"], cls, g[0].get("cls") or "pass", g[1].get("cls") or "pass"))
            fault = True
            continue
        if g[0].get("cls") != cls:
            log("note: run %d shows as %s in a fresh process (was %s inside the worker)" % (r0["i"], g[0].get("cls"), cls))
            cls = g[0].get("cls")
        full = g[0]
        if "cfg" not in full:
            # the run dies without leaving a record: take the plan from a dry run,
            # the decisions are re-derived from the run seed
            rr, rc, err = run_worker(harness, flavour, ["--runs", str(r0["i"]), "1", "1", "--seed", str(seed), "--tier", tier, "--dry"])
            if not rr or "cfg" not in rr[-1]:
                log("NO-PLAN for candidate property=%s flavour=%s run=%d class=%s" % (prop, flavour, r0["i"], cls))
                fault = True
                continue
            full = dict(rr[-1], cls=cls)
            full.pop("choices", None)
        run_seed = r0.get("seed") or full.get("seed")
        state = state_of(full, seed=int(run_seed))
        # the explicit state must fail the same way before we shrink it
        wd = spec.get("watchdog", {}).get(tier, 30)
        chk = run_replay(harness, flavour, state, watchdog=wd)
        if chk.get("ok") or chk.get("cls") != cls:
            log("REPLAY-DIVERGES property=%s flavour=%s run=%d class=%s replay=%s" %
                (prop, flavour, r0["i"], cls, chk.get("cls")))
            fault = True
            continue
        sh = Shrinker(harness, flavour, state, cls, min(t_end, time.time() + per_class), spec["concurrent"] and not spec.get("single_task"))
        state = sh.run()
        log("shrunk %s: ops %d -> %d, non-default decisions %d -> %d (%d re-executions)" %
            (cls, len(full.get("ops", [])), len(state["ops"]), len(full.get("choices", [])), len(state["choices"] or []), sh.tests))
        final = run_replay(harness, flavour, state, watchdog=wd)
        final2 = run_replay(harness, flavour, state, watchdog=wd)
        if final.get("ok") or final.get("cls") != cls or (final.get("fp") != final2.get("fp") and cls != "hang_wallclock"):
            log("SHRUNK-REPLAY-DIVERGES property=%s class=%s" % (prop, cls))
            fault = True
            continue
        k = match_known(prop, cls, final.get("detail", ""), state, known)
        if k is not None:
            known_hits.setdefault(k["id"], dict(entry=k, count=0))["count"] += len(recs)
            continue
        key = (cls, json.dumps(state["cfg"]), len(state["ops"]))
        if key in seen_final:
            continue
        seen_final.add(key)
        os.makedirs(os.path.join(VERIF, "replays"), exist_ok=True)
        path = os.path.join(VERIF, "replays", "%s-%s-%s.json" % (prop, flavour, run_seed))
        with open(path, "w") as f:
            json.dump(dict(property=prop, harness=harness, flavour=flavour, base_seed=seed, run_index=r0["i"],
                           run_seed=run_seed, tier=tier, cfg=state["cfg"],
                           sim=state["sim"], sim_names=SIM_NAMES, ops=state["ops"], choices=state["choices"],
                           decision_seed=state.get("seed") if state["choices"] is None else None,
                           expect=dict(cls=cls, fp=final.get("fp")), detail=final.get("detail", "")[:3000],
                           original=dict(n_ops=len(full.get("ops", [])), n_choices=len(full.get("choices", [])),
                                         failing_runs_of_this_class=len(recs))), f, indent=1)
        violations.append((cls, path, final.get("detail", "")))
    return violations, known_hits, fault


def do_replay(prop, spec, path):
    with open(path) as f:
        rp = json.load(f)
    flavour = rp.get("flavour", "plain")
    build(spec["harness"], [flavour])
    state = dict(cfg=rp["cfg"], sim=rp["sim"], ops=rp["ops"], choices=rp["choices"], seed=rp.get("decision_seed"))
    r = run_replay(spec["harness"], flavour, state)
    exp = rp.get("expect", {})
    log("replay: ok=%s cls=%s fp=%s steps=%s" % (r.get("ok"), r.get("cls"), r.get("fp"), r.get("steps")))
    if r.get("detail"):
        log(r["detail"][:3000])
    if not r.get("ok") and r.get("cls") == exp.get("cls"):
        if r.get("fp") != exp.get("fp"):
            log("note: same violation class, different schedule fingerprint (source changed?)")
        log("VIOLATION property=%s replay=%s" % (prop, path))
        return 1
    if r.get("ok"):
        log("replay does not fail on this tree")
        return 0
    log("replay fails differently: expected %s" % exp.get("cls"))
    log("VIOLATION property=%s replay=%s" % (prop, path))
    return 1


def main():
    ap = argparse.ArgumentParser()
    ap.add_argument("prop")
    ap.add_argument("--tier", default=os.environ.get("VERIF_TIER", "quick"))
    ap.add_argument("--replay")
    ap.add_argument("--scale", type=float, default=1.0, help="scale the number of runs (experiments)")
    ap.add_argument("--no-evidence", action="store_true")
    a = ap.parse_args()
    prop = a.prop
    if prop not in PROPS:
        log("unknown property %s" % prop)
        return 2
    spec = PROPS[prop]
    os.makedirs(TMP, exist_ok=True)
    if a.replay:
        return do_replay(prop, spec, a.replay)
    tier = a.tier if a.tier in ("quick", "thorough") else "quick"
    seed = int(os.environ.get("VERIF_SEED", "1"))
    if a.scale != 1.0:
        spec = dict(spec)
        spec["runs"] = {t: {f: int(n * a.scale) for f, n in d.items()} for t, d in spec["runs"].items()}
    t0 = time.time()
    flavours = [f for f, n in spec["runs"][tier].items() if n > 0]
    build(spec["harness"], flavours)
    t_build = time.time() - t0
    agg = Agg()
    run_batch(prop, spec, tier, seed, agg)
    t_run = time.time() - t0 - t_build
    known = load_known()
    violations, known_hits, fault = handle_failures(prop, spec, seed, tier, agg, known)
    wall = time.time() - t0

    for kid, h in known_hits.items():
        log("KNOWN-FINDING: property=%s %s [%s, %d runs]" % (prop, h["entry"]["what"], kid, h["count"]))
    for cls, path, detail in violations:
        log("violation class: %s" % cls)
        log((detail or "")[:1500])
        log("VIOLATION property=%s replay=%s" % (prop, path))

    total = sum(agg.n.values())
    if not a.no_evidence:
        samples = []
        for s in agg.samples:
            samples.append(dict(run_index=s["i"], run_seed=s["seed"], cfg=s.get("cfg"),
                                sim=dict(zip(SIM_NAMES, s.get("sim", []))), ops=s.get("ops"),
                                first_decisions=" ".join("%d:%d" % (i, v) for i, v in s.get("choices", [])[:60]), steps=s.get("steps"),
                                threads=s.get("thr"), faults_fired=s.get("f"), probes=s.get("p")))
        zero_probes = [k for k in spec.get("expected_probes", []) if agg.probes.get(k, 0) == 0]
        cov = dict(
            evaluations=total,
            distinct_nontrivial=len(agg.fps),
            rule=("one evaluation = one simulated run (seeded workload + seeded schedule + seeded faults) of the real tlx code "
                  "under the deterministic scheduler. distinct = 64-bit fingerprint of the sequence (thread, sync-op kind, "
                  "object ordinal) of all synchronisation operations executed; non-trivial = >=2 simulated threads, >=2 sync "
                  "operations and >=1 preemptive switch away from a still-enabled thread."
                  if not spec.get("single_task") else
                  "one evaluation = one seeded operation history executed against the real container inside the simulator's allocator / "
                  "element-lifetime environment (single task: no schedule). distinct = 64-bit fingerprint of the sequence of (operation, "
                  "resulting size) and allocator events (fresh / recycled / released, block size); non-trivial = at least one recycled "
                  "block (a seeded environment decision fired) and at least 8 fingerprinted events."),
            samples=samples or [dict(note="no passing sample captured")],
            runs_per_flavour=dict(agg.n),
            distinct_fingerprints_all=len(agg.fps_all),
            simulated_steps_total=agg.steps,
            simulated_time_note="tlx has no clock-dependent behaviour; simulated time = scheduler steps",
            scheduling_decisions_total=agg.decisions,
            preemptions_total=agg.preempts,
            sync_ops_total=agg.sync,
            runs_per_hour=int(total / max(wall, 1e-9) * 3600),
            seeds_per_hour=int(total / max(wall, 1e-9) * 3600),
            faults_fired=dict(agg.faults),
            runtime_probes=dict(agg.rprobes),
            harness_probes=dict(agg.probes),
            harness_probe_runs=dict(agg.probe_runs),
            repo_hook_probes=dict(agg.hook_probes),
            repo_hook_probe_runs=dict(agg.hook_probe_runs),
            repo_hook_probes_expected_but_zero=[k for k in spec.get("expected_hook_probes", []) if agg.hook_probes.get(k, 0) == 0],
            probes_at_zero=zero_probes,
            strategy_mix=({} if spec.get("single_task") else dict(agg.strat)),
            threads_histogram={str(k): v for k, v in sorted(agg.threads.items())},
            components_real=spec["real"], components_stub=spec["stub"],
            known_findings_matched={k: v["count"] for k, v in known_hits.items()},
            failing_runs=len(agg.failures), batch_cut_short_after_many_failures=agg.aborted,
            build_s=round(t_build, 1), run_s=round(t_run, 1),
        )
        ev = dict(property_id=prop, tier=tier, seed=seed, level="exploration", coverage=cov,
                  assumptions=[
                      "sequentially consistent interleavings at synchronisation-operation granularity; weak-memory effects only as far as they are happens-before races (tsan flavour)",
                      "sampling, not enumeration: a clean batch is evidence, not proof",
                      "compiled with -DNDEBUG like the shipped RelWithDebInfo library"],
                  wall_s=round(wall, 2), violations=len(violations))
        os.makedirs(os.path.join(VERIF, "evidence"), exist_ok=True)
        with open(os.path.join(VERIF, "evidence", prop + ".json"), "w") as f:
            json.dump(ev, f, indent=1)
    log("%s tier=%s seed=%d runs=%d (%s) distinct_nontrivial=%d failing=%d violations=%d known=%d wall=%.1fs (build %.1fs)" %
        (prop, tier, seed, total, dict(agg.n), len(agg.fps), len(agg.failures), len(violations), len(known_hits), wall, t_build))
    # a gated, replayed violation is a verdict even if another candidate could not be reproduced
    if violations:
        return 1
    return 2 if fault else 0


if __name__ == "__main__":
    sys.exit(main())
