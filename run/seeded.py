#!/usr/bin/env python3
"""Confirm a seeded defect (produced by an independent sub-agent in a scratch
worktree) and run the registered check against it.

  python3 run/seeded.py verify <Cxx> <agent_dir> <name> --demo-cmd '<compile+run, {WT} = worktree>' --tests <ctest regex>
      1. fresh scratch worktree of /repo HEAD under /tmp; the demo must PASS there
      2. apply patch.diff; the demo must FAIL
      3. the existing tests matching the regex must pass with the patch
      4. copy patch.diff + demo + meta.json to /verif/seeded/<name>/ ; remove the worktree
  python3 run/seeded.py check <name> [--tier quick] [--scale f]
      apply seeded/<name>/patch.diff to /repo, run the property's check (no evidence), undo.
"""
import argparse
import json
import os
import shutil
import subprocess
import sys
import time

VERIF = os.path.dirname(os.path.dirname(os.path.abspath(__file__)))


def sh(cmd, cwd=None, timeout=3600):
    p = subprocess.run(cmd, shell=True, cwd=cwd, stdout=subprocess.PIPE, stderr=subprocess.STDOUT, text=True, timeout=timeout)
    return p.returncode, p.stdout


def verify(a):
    wt = "/tmp/vw_%s" % a.name
    sh("git -C /repo worktree remove --force %s" % wt)
    rc, out = sh("git -C /repo worktree add -q --detach %s HEAD" % wt)
    assert rc == 0, out
    meta = dict(property=a.prop, name=a.name, verified_at=time.strftime("%Y-%m-%d %H:%M:%S"), repo_head=sh("git -C /repo rev-parse --short HEAD")[1].strip())
    try:
        os.makedirs(wt + "/_agent", exist_ok=True)
        for f in os.listdir(a.agent_dir):
            if os.path.isfile(os.path.join(a.agent_dir, f)):
                shutil.copy(os.path.join(a.agent_dir, f), wt + "/_agent/")
        demo = a.demo_cmd.replace("{WT}", wt)
        rc0, out0 = sh(demo, cwd=wt, timeout=1800)
        print("demo on the unmodified tree: rc=%d" % rc0)
        print(out0[-600:])
        rc, out = sh("git apply _agent/patch.diff || (git apply --3way _agent/patch.diff && git reset -q)", cwd=wt)
        assert rc == 0, "patch does not apply: " + out
        rc1, out1 = sh(demo, cwd=wt, timeout=1800)
        print("demo with the change: rc=%d" % rc1)
        print(out1[-900:])
        ok_demo = (rc0 == 0 and rc1 == 0) if a.neutral else (rc0 == 0 and rc1 != 0)
        tests_ok = None
        if a.tests:
            rc, out = sh("cmake -G Ninja -S . -B _build -DTLX_BUILD_TESTS=ON -DCMAKE_BUILD_TYPE=RelWithDebInfo >/dev/null && "
                         "ninja -C _build $(ninja -C _build -t targets all | grep -oE '^tlx_[a-z_0-9]+_test' | grep -E '%s' | sort -u | tr '\\n' ' ') 2>&1 | tail -2 && "
                         "ctest --test-dir _build -R '%s' --timeout 1500 2>&1 | tail -6" % (a.tests, a.tests), cwd=wt, timeout=7200)
            print(out[-900:])
            tests_ok = "100% tests passed" in out
        meta.update(demo_cmd=a.demo_cmd, demo_rc_unmodified=rc0, demo_rc_with_change=rc1, demo_output_with_change=out1[-1500:],
                    existing_tests_regex=a.tests, existing_tests_pass_with_change=tests_ok, needs=a.needs, confirmed=bool(ok_demo and tests_ok is not False))
        dst = os.path.join(VERIF, "neutral" if a.neutral else "seeded", a.name)
        meta["kind"] = "behaviour-preserving change (the checks must stay quiet)" if a.neutral else "seeded defect"
        os.makedirs(dst, exist_ok=True)
        for f in os.listdir(a.agent_dir):
            p = os.path.join(a.agent_dir, f)
            if os.path.isfile(p) and os.path.getsize(p) < 200000:
                shutil.copy(p, dst)
        with open(os.path.join(dst, "meta.json"), "w") as f:
            json.dump(meta, f, indent=1)
        print("CONFIRMED" if meta["confirmed"] else "NOT CONFIRMED", a.name)
    finally:
        sh("git -C /repo worktree remove --force %s" % wt)
        shutil.rmtree(wt, ignore_errors=True)
    return 0 if meta["confirmed"] else 1


def check(a):
    dst = os.path.join(VERIF, "seeded", a.name)
    if not os.path.exists(dst):
        dst = os.path.join(VERIF, "neutral", a.name)
    meta = json.load(open(os.path.join(dst, "meta.json")))
    props = a.props.split(",") if a.props else [meta["property"]]
    rc, out = sh("git -C /repo status --porcelain --untracked-files=no")
    assert out.strip() == "", "/repo has uncommitted changes"
    # (the patches were made before later commits to /repo, e.g. the probe hooks: fall back to a 3-way apply)
    rc, out = sh("git -C /repo apply %s/patch.diff || (git -C /repo apply --3way %s/patch.diff && git -C /repo reset -q)" % (dst, dst))
    if rc != 0:
        # a failed 3-way apply leaves conflict markers behind: restore the tracked files before giving up
        sh("git -C /repo reset -q && git -C /repo checkout -- .")
        raise AssertionError(out)
    results = {}
    try:
        for prop in props:
            t0 = time.time()
            rc, out = sh("python3 run/check.py %s --tier %s --scale %s --no-evidence" % (prop, a.tier, a.scale), cwd=VERIF, timeout=7200)
            lines = [l for l in out.splitlines() if l.startswith(("VIOLATION", "violation class", "KNOWN", "NON-REPRO", "shrunk", prop + " tier", "MACHINERY", "REPLAY", "note:"))]
            print("\n".join(l[:260] for l in lines))
            results[prop] = dict(exit=rc, wall_s=round(time.time() - t0, 1), tier=a.tier, scale=a.scale,
                                 violation_classes=[l.split(":", 1)[1].strip()[:200] for l in lines if l.startswith("violation class")])
            print("check %s exit=%d (%.0fs)" % (prop, rc, time.time() - t0))
    finally:
        sh("git -C /repo checkout -- .")
        shutil.rmtree(os.path.join(VERIF, "replays"), ignore_errors=True)
    meta.setdefault("check_results", {}).update(results)
    if "behaviour-preserving" in meta.get("kind", ""):
        meta["quiet"] = all(r["exit"] == 0 for r in meta["check_results"].values())
    else:
        meta["caught"] = any(r["exit"] == 1 for r in meta["check_results"].values())
    with open(os.path.join(dst, "meta.json"), "w") as f:
        json.dump(meta, f, indent=1)
    return 0


def main():
    ap = argparse.ArgumentParser()
    sub = ap.add_subparsers(dest="cmd")
    v = sub.add_parser("verify")
    v.add_argument("prop"); v.add_argument("agent_dir"); v.add_argument("name")
    v.add_argument("--demo-cmd", required=True); v.add_argument("--tests", default=""); v.add_argument("--needs", default="")
    v.add_argument("--neutral", action="store_true", help="a behaviour-preserving change: the demo must pass with and without it")
    c = sub.add_parser("check")
    c.add_argument("name"); c.add_argument("--tier", default="quick"); c.add_argument("--scale", default="1.0"); c.add_argument("--props", default="")
    a = ap.parse_args()
    return verify(a) if a.cmd == "verify" else check(a)


if __name__ == "__main__":
    sys.exit(main())
