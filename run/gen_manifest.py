#!/usr/bin/env python3
"""Regenerates /verif/MANIFEST.json from the tables below (kept next to the
driver so that the list of claimed checks and the N/A list stay in step)."""
import json, os
VERIF = os.path.dirname(os.path.dirname(os.path.abspath(__file__)))

TECH = "deterministic simulation: seeded scheduler + fault injection over real threads, history oracles, ddmin-minimised replay"
TECH_SEQ = "deterministic simulation (single task): seeded operation history over a simulated allocator/lifetime environment, ledger oracles, ddmin-minimised replay"
TRUST = ("Trusted: the scheduler shim models mutex/condition_variable/atomic/thread as the C++ standard allows (atomic unlock+sleep in wait, "
         "at-least-one wake per notify, spurious wake-ups, unfair mutexes); sequentially consistent interleavings at sync-op granularity; "
         "TSan (happens-before races) and ASan (use after release) on the same schedules; -DNDEBUG like the shipped library.")

CLAIMED = {
 "C10": dict(text="Seeded search over (job graph, pool size, waiters, outside enqueuers, cancellation point, destruction mode) x (thread interleaving, wake-up choice, spurious wake-ups) of the real thread_pool.cpp under a deterministic scheduler, in plain/ASan/TSan builds; oracles: exactly-once ledger, quiescence and done() at every loop_until_empty return, terminate ordering, deadlock/lost wake-up = no enabled thread, TSan visibility of job effects. Sampling, not proof.",
             ref="DESIGN.md 4 (C10)", note=TRUST, tech=TECH),
 "C11": dict(text="Seeded search over semaphore scripts (2-4 threads, signal/signal(n)/wait(delta,slack)/try_acquire, equal and mixed requests) and barrier crossings (1-4 threads, 1-6 generations, wait/wait_yield) x interleavings, wake-up choice and spurious wake-ups; oracles: linearizability of the completed history against a counting-semaphore model (Wing-Gong search), token conservation, stranded-waiter check when the simulator reaches rest, per-generation enter/action/leave ordering, action exactly once, visibility of pre-barrier writes, deadlock detection. Sampling, not proof.",
             ref="DESIGN.md 4 (C11)", note=TRUST, tech=TECH),
 "C12": dict(text="Seeded search over single-thread handle histories (construct, copy/move construct and assign incl. self and same-object, converting copy/move, swap, reset, unify, scope exit, no-op deleter) and over interleavings of 2-3 threads copying, moving and dropping private handles to one shared object while the controller drops its own concurrently; oracles: use_count()/unique() == number of handles observed pointing to the object after every step, destroy-exactly-once ledger, never destroyed while a handle remains (ledger + ASan), destroyed when the last handle goes, TSan on the object and its count. Sampling, not proof.",
             ref="DESIGN.md 4 (C12)", note=TRUST, tech=TECH),
 "C06": dict(text="Seeded search over (n 0..96 incl. n<threads and n not divisible, key multisets: all-equal, 2-4 keys, sorted/reversed runs, random; POD and heap-owning ledgered element types; threads 1..6 and 16, default thread count via the hardware_concurrency shim; exact and sampling splitting, oversampling 1..4; stable/unstable) x thread interleavings through the barrier phases; oracles: == std::stable_sort (stable), sorted permutation (unstable), live-instance ledger unchanged at return (every temporary copy destroyed), no double destroy / use of a destroyed element, termination (deadlock, step bound), ASan, TSan. Sampling, not proof.",
             ref="DESIGN.md 4 (C06)", note=TRUST, tech=TECH),
 "C07": dict(text="Seeded search over (1-6 sorted sequences with empty ones anywhere, lengths 0..40, key universe 1..6, one dominant sequence; size = total / 0 / random; threads 1..8 and 32 incl. more threads than elements; exact and sampling splitting, oversampling 1..4; all four merge algorithms; stable/unstable; sentinel entry points with a real sentinel element; the six public entry points with force_parallel or randomised minimal_k/minimal_n) x interleavings of the fork/join workers; oracles against an independent reference (stable sort of (value, sequence, position) triples): output values, exact origins for stable variants, return == target+size, guard cells behind size untouched, input begins advanced past exactly the contributed elements, one writing thread per output slot (assignment log), ASan, TSan. Sampling, not proof.",
             ref="DESIGN.md 4 (C07)", note=TRUST, tech=TECH),
 "C04": dict(text="Seeded search over (string multisets: random over 1-4 letters, all-equal, all-empty, long shared prefixes diverging around the 8/16-byte key boundary, bytes 0x01-0xFF, duplicate-heavy, prefix chains; n 0..600) x (9 parameter sets: the default through the public front ends and 8 tiny-threshold / small-splitter-tree tunings over three classifiers, 32- and 64-bit keys, work sharing and rest-size on/off) x (unsigned char*, const unsigned char*, std::string, unique_ptr<std::string>, suffix sets) x with/without LCP x worker counts 1..8 x interleavings of the job graph, wake-up choice, spurious wake-ups and the sampling RNG (seeded by the simulator instead of a heap address, incl. a degenerate constant stream); oracles: permutation of the original objects, unsigned-byte order, exact LCP array, termination (deadlock / step bound), ASan (released work items), TSan. Sampling, not proof.",
             ref="DESIGN.md 4 (C04)", note=TRUST, tech=TECH),
 "C16": dict(text="Single-task simulated runs: seeded histories (push/emplace/pop at both ends, indexing, clear, copy/move construction and assignment, allocate/deallocate, copy_to/move_to, destruction; capacities 0..9; int and heap-owning ledgered elements; SimpleVector in its three modes with construct/move/swap/resize/destroy/fill) executed against the real containers inside the simulator's allocator environment (seeded block recycling, poisoning with quarantine, canaries) and element-lifetime ledger; oracles: std::deque / std::vector model after every step, alive <=> stored, allocate/deallocate ledger (size and type match, nothing live at the end, released blocks untouched), ASan. There is no schedule in this property: the simulator-owned dimension is the allocator/lifetime environment. Sampling, not proof.",
             ref="DESIGN.md 4 (C16), 1 (single-task claims)", note="Trusted: the simulated allocator behaves like a conforming allocator (recycling, no zeroing); the reference model is std::deque/std::vector; ASan on the same histories. -DNDEBUG like the shipped library.", tech=TECH_SEQ),
 "C17": dict(text="Single-task simulated runs: seeded histories over keys 0..7 (LRU set/map: put, touch, touch_if_exists, get, get_touch, erase, erase_if_exists, exists, pop, clear, absent keys on purpose, final drain; splay set/multiset with int and heap-owning keys: insert, erase, erase(node), exists, find, clear-then-continue, traversal, operations on the empty tree) executed against the real containers inside the simulator's allocator environment (seeded recycling, poisoning with quarantine, canaries) and key-lifetime ledger; oracles: recency-list model incl. std::range_error exactly for absent keys and exact pop order, std::set/std::multiset model (returns, size, in-order sequence, find neighbours), check() for the set variant, live nodes == stored keys after every step, allocator ledger clean at the end, ASan. No schedule in this property: the simulator-owned dimension is the allocator/lifetime environment. Sampling, not proof.",
             ref="DESIGN.md 4 (C17), 1 (single-task claims)", note="Trusted: the simulated allocator behaves like a conforming allocator; reference models are a std::list recency list and std::set/std::multiset; ASan on the same histories. -DNDEBUG like the shipped library.", tech=TECH_SEQ),
 "C02": dict(text="Single-task simulated runs: seeded histories (insert value / with hint / range, erase by key, erase_one, erase(iterator) inside duplicate runs and at leaf borders, clear, copy construction, assignment, swap, bulk_load of sorted ranges of sizes around 0, 1 and node-capacity multiples, construction and destruction of up to three trees) over 10 instantiations (set/multiset/map/multimap; leaf x inner slots 4x4, 4x7, 5x4, 6x5, 8x8, 16x4, 4x5, 5x7, 7x4; linear and binary in-node search; less/greater; int and heap-owning keys and mapped values) executed inside the simulator's allocator environment (seeded recycling, poisoning with quarantine, canaries); oracles after every mutating call on every live tree: verify() (die switched to exceptions), allocated blocks == leaves + inner nodes, no double destroy / use of a destroyed element, live elements >= stored; at the end no block and no element alive, released blocks untouched; ASan. No schedule in this property: the simulator-owned dimension is the allocator/lifetime environment. Sampling, not proof.",
             ref="DESIGN.md 4 (C02), 1 (single-task claims)", note="Trusted: BTree::verify() as the statement's self-check; the simulated allocator behaves like a conforming allocator; ASan on the same histories. -DNDEBUG like the shipped library.", tech=TECH_SEQ),
}
PENDING = []
# dimensions added later, driven by the seeded "unusual but legal usage" changes (DESIGN.md 12)
ADDED = {
 "C10": "Added later: job closures with observable destructors that enqueue continuations, jobs ending with a caught std::exception, up to three terminating jobs, jobs that own an inner pool and wait for it, pools of up to 6 workers, a rare wide mode in which one or two jobs on a pool of one or two workers enqueue 129 to 4100 children.",
 "C11": "Added later: requests for zero tokens, up to 6 threads and 8 generations, the team moving on to a second barrier object, actions that read step() of their barrier.",
 "C12": "Added later: handles that live inside managed objects (link / advance / push_front histories, never a cycle), inspection from inside the dying object (no handle variable still points to it; a solely owned successor is gone the moment its handle lets go), make_counting with a self-registering constructor, a derived class whose counted base is not its first base, last owner letting go through reset() under the no-op deleter, concurrent unify/swap and threads copying the single handle.",
 "C06": "Added later: 24/32 and SIZE_MAX thread counts, std::deque and reverse-iterator ranges, a comparator with run-time state and an unsynchronised call counter (a shared instance is a race; moved-from arguments are recorded), element types with an adversarial operator<.",
 "C07": "Added later: 17-48 short sequences, sequences in std::deque, a second trivially copyable element type, an element type that knows its own address (assignment to / copy from raw storage), a comparator with an unsynchronised call counter, adversarial operator<, histories of two calls of the same entry point from one fresh thread (an earlier partial merge with another thread count and splitting, then the merge under test).",
 "C04": "Added later: 19 variants incl. the char front ends, thorough-tier runs with the default thresholds (> 1 Mi strings) and of 65535..65537 strings.",
 "C16": "Added later: allocator instances that compare unequal, pushes of references to own elements, copies of storage-less buffers, an element type on which braces and parentheses disagree and which overloads operator&, emplace with constructor arguments, SimpleVector<size_t> with resize(v[k]), traversal of the ledgered SimpleVector through begin()/end()/cbegin()/cend()/data() after every operation. Storage blocks never returned are counted, not judged.",
 "C17": "Added later: LRU caches with heap-owning keys and values and with an allocator instance, put(k, get(k)) and erase(get(k)), spines of 65+ equal keys, node pointers kept over insertions, traversal with a collecting function object, splay trees built with a run-time (descending) comparator and an allocator instance. LRU nodes never returned are counted, not judged.",
 "C02": "Added later: 13 instantiations incl. tlx::BTree used directly and a comparator with run-time state, big trees (bulk loads of up to 400 keys, long erase phases), allocator instances that compare unequal, keys whose move empties the source, arguments that alias the tree (insert(*it), erase(it.key())), construction and assignment from rvalues, bulk_load from deques and reverse iterators.",
}

NA = {
 "C01":"pure function of a single-threaded call history: no schedule, clock, fault or environment seam in the statement (model-based testing, not simulation) - DESIGN.md 5",
 "C03":"sequential string sorts are pure functions of (strings, memory limit); nothing for a scheduler or fault injector to own - DESIGN.md 5",
 "C05":"sequential multiway merge is a pure function of (sequences, length, variant) - DESIGN.md 5",
 "C08":"multisequence partition/selection is a pure function of (sequences, rank); its code is still exercised (and its defects reported) through the simulated runs of C06/C07 - DESIGN.md 5",
 "C09":"loser-tree replay histories are caller-supplied inputs on a single-threaded object; no environment - DESIGN.md 5",
 "C13":"heap operation histories are caller-supplied inputs on single-threaded objects; no environment - DESIGN.md 5",
 "C14":"digests: the chunking over process() calls is chosen by the caller, not by an environment the library reads from; SipHash is a pure function - DESIGN.md 5",
 "C15":"sorting networks are pure; the deciding argument (all 2^n 0/1 inputs) is exhaustive enumeration, i.e. model checking, a different family - DESIGN.md 5",
 "C18":"pure function of its arguments - DESIGN.md 5",
 "C19":"pure functions of their arguments - DESIGN.md 5",
 "C20":"pure functions of their arguments - DESIGN.md 5",
}

def main():
    checks = []
    for pid in sorted(CLAIMED):
        c = CLAIMED[pid]
        checks.append({
            "property_id": pid,
            "quick_cmd": "python3 run/check.py %s --tier quick" % pid,
            "thorough_cmd": "python3 run/check.py %s --tier thorough" % pid,
            "evidence_file": "/verif/evidence/%s.json" % pid,
            "replay_cmd_template": "python3 run/check.py %s --replay {path}" % pid,
            "engine": "sim",
            "level_claimed": {"category": "exploration", "text": c["text"] + " " + ADDED.get(pid, ""), "design_ref": c["ref"]},
            "level_note": c["note"],
            "technique": c["tech"],
        })
    na = [{"property_id": k, "reason": v} for k, v in sorted(NA.items())]
    na += [{"property_id": k, "reason": "claimed in DESIGN.md but its harness is not built yet at this commit (work in progress)"}
           for k in PENDING if k not in CLAIMED]
    na.sort(key=lambda x: x["property_id"])
    m = {
        "version": 1,
        "setup_cmd": "make -C /verif -j16 setup",
        "hooks": {"guard": "TLX_VERIF",
                  "enable": "all harness TUs and the tlx .cpp files they link are compiled with -DTLX_VERIF (Makefile COMMON); the only hooks are reach probes TLX_VERIF_PROBE(name) -> extern \"C\" tlx_verif_probe(name), provided by sim/rt.cpp (evidence only: never a scheduling point, never part of an oracle). The concurrency seam needs no hook (force-included header sim/shim_std.hpp), the allocator seam is a template argument.",
                  "baseline_off_cmd": "cmake --build /repo/_build && ctest --test-dir /repo/_build -j8 --timeout 900",
                  "source_commits": ["a255775"], "add_only": True},
        "engines": [
            {"name": "sim", "path": "/verif/sim", "serves_properties": sorted(CLAIMED),
             "kind_free_text": "deterministic scheduler over real pthreads (one runnable at a time, futex hand-over, uninstrumented runtime), seeded strategies (random walk, sticky, PCT, round-robin, non-preemptive), fault injection (spurious wake-ups, notify choice, barging, stalls, allocator recycling/poisoning), history/ledger store, replay by explicit decision list"},
            {"name": "driver", "path": "/verif/run/check.py", "serves_properties": sorted(CLAIMED),
             "kind_free_text": "builds from /repo's working tree, pinned worker processes, merge by run index, gate (double reproduction in fresh processes), ddmin shrinking with schedule re-sampling, replay files, known findings, evidence"}],
        "checks": checks,
        "not_applicable": na,
        "notes": "See DESIGN.md. Genuine defects found and repaired are listed in known_findings.json (status fixed).",
    }
    with open(os.path.join(VERIF, "MANIFEST.json"), "w") as f:
        json.dump(m, f, indent=1)

if __name__ == "__main__":
    main()
