#!/bin/bash
# Line coverage of the anchored tlx files under a harness (gcov, -O0), to find blind spots of the
# workload generators.  usage: run/coverage.sh <harness> <runs> [tlx sources...]  -> prints per-file
# coverage of /repo/tlx files and leaves *.gcov under /tmp/cov_<harness>/
set -e
H=$1; N=$2; shift 2
D=/tmp/cov_$H; rm -rf $D; mkdir -p $D; cd $D
FL="-std=c++17 -DNDEBUG -DTLX_VERIF -g -O0 --coverage -I/repo -I/verif -include /verif/sim/shim_std.hpp"
OBJS=""
for src in /verif/harness/$H.cpp $(ls /verif/harness/${H%%_*}_[a-e].cpp 2>/dev/null) "$@"; do
  o=$(echo $src | tr "/." "__").o; g++ $FL -c $src -o $o & OBJS="$OBJS $o"
done
wait
g++ --coverage -o h $OBJS /verif/build/rt.o /verif/build/san_opts.o -lpthread
./h --runs 0 1 $N > /dev/null 2>&1 || true
for o in $OBJS; do gcov -b -c $o > gcov_$o.out 2>&1 || true; done
grep -h -A1 "^File '/repo/tlx" gcov_*.out | grep -v "^--" | paste - - | sed "s/File '\/repo\/tlx\///; s/'//" | sort -u | awk '{print}' | sort -t% -k1 | head -40
