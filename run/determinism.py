#!/usr/bin/env python3
"""Determinism proof (DESIGN.md 10.1): for each harness and flavour, execute the
same run indices several times -- in long-lived workers with two different
worker counts / chunkings, and in fresh processes -- and compare the per-run
(verdict, class, fingerprint, steps, decisions).  Any difference is a bug of
the machinery (a forgotten source of nondeterminism).

  python3 run/determinism.py [--runs N] [--props C10,C11] [--flavours plain,asan,tsan]
"""
import argparse
import json
import os
import subprocess
import sys
import threading

sys.path.insert(0, os.path.dirname(os.path.abspath(__file__)))
import check  # noqa: E402


def collect(harness, flavour, first, count, chunk, workers, seed):
    """Run indices [first, first+count) in chunks over `workers` pinned slots."""
    chunks = [(i, min(chunk, first + count - i)) for i in range(first, first + count, chunk)]
    out = {}
    lock = threading.Lock()
    idx = [0]

    def slot(cpu):
        while True:
            with lock:
                if idx[0] >= len(chunks):
                    return
                c = chunks[idx[0]]
                idx[0] += 1
            f, n = c
            while n > 0:
                recs, rc, err = check.run_worker(harness, flavour, ["--runs", str(f), "1", str(n), "--seed", str(seed)], cpu)
                done = 0
                for r in recs:
                    check.finish_record(r, rc, err)
                    with lock:
                        out[r["i"]] = (r.get("ok"), r.get("cls"), r.get("fp"), r.get("steps"), r.get("dec"), r.get("sync"))
                    done = r["i"] - f + 1
                if rc == 0:
                    break
                if done == 0:
                    with lock:
                        out[f] = (False, "died:rc=%d" % rc, None, None, None, None)
                    done = 1
                f += done
                n -= done

    ths = [threading.Thread(target=slot, args=(c,)) for c in range(workers)]
    for t in ths:
        t.start()
    for t in ths:
        t.join()
    return out


def main():
    ap = argparse.ArgumentParser()
    ap.add_argument("--runs", type=int, default=2000)
    ap.add_argument("--props", default=",".join(sorted(check.PROPS)))
    ap.add_argument("--flavours", default="plain,asan,tsan")
    ap.add_argument("--seed", type=int, default=int(os.environ.get("VERIF_SEED", "1")))
    a = ap.parse_args()
    os.makedirs(check.TMP, exist_ok=True)
    bad = 0
    for prop in a.props.split(","):
        spec = check.PROPS[prop]
        flavours = [f for f in a.flavours.split(",") if f in spec["runs"]["quick"]]
        check.build(spec["harness"], flavours)
        ref = None
        for fl in flavours:
            n = a.runs if fl == "plain" else max(200, a.runs // 4)
            a1 = collect(spec["harness"], fl, 0, n, 250, 16, a.seed)
            a2 = collect(spec["harness"], fl, 0, n, 97, 5, a.seed)
            # fresh process per run for a prefix
            a3 = collect(spec["harness"], fl, 0, min(n, 150), 1, 16, a.seed)
            diffs = [i for i in range(n) if a1.get(i) != a2.get(i)]
            diffs3 = [i for i in a3 if a1.get(i) != a3.get(i)]
            cross = []
            if ref is not None:
                # fingerprints and verdicts must not depend on the flavour either
                cross = [i for i in range(min(n, len(ref))) if i in a1 and i in ref and (a1[i][2], a1[i][3], a1[i][4]) != (ref[i][2], ref[i][3], ref[i][4]) and a1[i][0] and ref[i][0]]
            else:
                ref = a1
            print("%s %-5s runs=%d  W16/chunk250 vs W5/chunk97: %d differ; vs fresh process (%d runs): %d differ; vs plain flavour: %d differ" %
                  (prop, fl, n, len(diffs), len(a3), len(diffs3), len(cross)), flush=True)
            for i in (diffs + diffs3 + cross)[:5]:
                print("   run", i, a1.get(i), a2.get(i), a3.get(i), ref.get(i) if ref else None)
            bad += len(diffs) + len(diffs3) + len(cross)
    print("DETERMINISM", "OK" if bad == 0 else "BROKEN (%d differences)" % bad)
    return 0 if bad == 0 else 1


if __name__ == "__main__":
    sys.exit(main())
