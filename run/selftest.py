#!/usr/bin/env python3
"""Self-test of the simulator's shims (harness/t00_selftest.cpp).

Correct little programs over the primitives tlx does not use today (recursive /
timed / shared mutex, condition_variable_any, atomic_flag, timed waits, sleeps,
async / future / promise / packaged_task, call_once, compare_exchange_weak,
detach, std::lock) must stay quiet in all three flavours; deliberately wrong ones
must be reported with the expected class.  Not a property check: it guards the
machinery against raising an alarm on (or missing a defect in) a change to tlx
that switches primitives.

  python3 run/selftest.py [--runs N]
"""
import argparse
import collections
import json
import os
import subprocess
import sys

VERIF = os.path.dirname(os.path.dirname(os.path.abspath(__file__)))

GOOD = {0: "recursive_mutex", 1: "shared_mutex", 2: "atomic_flag lock acq/rel", 3: "timed_mutex", 4: "queue with wait_for",
        5: "sleep_for polling", 6: "async/future", 7: "promise", 8: "packaged_task", 9: "call_once", 10: "cv_any+recursive_mutex",
        11: "compare_exchange_weak loop", 12: "detach", 13: "wait_until", 14: "std::lock/scoped_lock", 15: "quiescence with a polling waiter"}
# scenario -> (name, flavour it must show in, accepted class prefixes)
BAD = {20: ("lost wake-up", "plain", ("deadlock",)),
       21: ("plain data race", "tsan", ("sanitizer", "tsan:")),
       22: ("single compare_exchange_weak attempt", "plain", ("selftest",)),
       23: ("atomic_flag lock with relaxed orders", "tsan", ("sanitizer", "tsan:")),
       24: ("ABBA deadlock", "plain", ("deadlock",)),
       25: ("polling for something nobody does", "plain", ("step_bound",)),
       26: ("relaxed flag hand-over", "tsan", ("sanitizer", "tsan:"))}


def run(flavour, scenario, runs):
    env = dict(os.environ, SELFTEST_SCENARIO=str(scenario))
    p = subprocess.run([os.path.join(VERIF, "build", flavour, "t00_selftest"), "--runs", "0", "1", str(runs), "--seed", "1"],
                       stdout=subprocess.PIPE, stderr=subprocess.DEVNULL, text=True, env=env, cwd=VERIF, timeout=1800)
    c = collections.Counter()
    n = 0
    for line in p.stdout.splitlines():
        if not line.startswith("{"):
            continue
        r = json.loads(line)
        n += 1
        if not r.get("ok"):
            c[r.get("cls", "?")] += 1
    return n, c, p.returncode


def main():
    ap = argparse.ArgumentParser()
    ap.add_argument("--runs", type=int, default=2000)
    a = ap.parse_args()
    rc, _ = subprocess.getstatusoutput("make -C %s -j16 build/plain/t00_selftest build/asan/t00_selftest build/tsan/t00_selftest" % VERIF)
    if rc != 0:
        print("SELFTEST: build failed")
        return 2
    bad = 0
    for sc, name in sorted(GOOD.items()):
        for fl in ("plain", "asan", "tsan"):
            n, c, _ = run(fl, sc, a.runs if fl == "plain" else a.runs // 4)
            ok = n > 0 and not c
            print("%-5s scenario %2d %-34s %-5s runs=%-5d %s" % ("ok" if ok else "ALARM", sc, name, fl, n, dict(c) if c else "quiet"))
            bad += 0 if ok else 1
    for sc, (name, fl, classes) in sorted(BAD.items()):
        # a worker stops at its first failing run (the process state is not trusted afterwards): sample by seed
        hit = collections.Counter()
        total = 0
        for first in range(0, a.runs, max(1, a.runs // 40)):
            env = dict(os.environ, SELFTEST_SCENARIO=str(sc))
            p = subprocess.run([os.path.join(VERIF, "build", fl, "t00_selftest"), "--runs", str(first), "1", str(max(1, a.runs // 40)), "--seed", "1"],
                               stdout=subprocess.PIPE, stderr=subprocess.DEVNULL, text=True, env=env, cwd=VERIF, timeout=600)
            for line in p.stdout.splitlines():
                if line.startswith("{"):
                    r = json.loads(line)
                    total += 1
                    if not r.get("ok"):
                        hit[r.get("cls", "?")] += 1
        ok = any(k.startswith(classes) for k in hit) and all(k.startswith(classes) for k in hit)
        print("%-5s scenario %2d %-34s %-5s runs=%-5d %s" % ("ok" if ok else "MISS", sc, name, fl, total, dict(hit)))
        bad += 0 if ok else 1
    print("SELFTEST %s" % ("OK" if bad == 0 else "FAILED (%d)" % bad))
    return 0 if bad == 0 else 1


if __name__ == "__main__":
    sys.exit(main())
