#include "c04/c04_params.hpp"
namespace c04 {
bool run_b(int param, int setkind, bool lcp, const Input& in, Output& out) {
    if (setkind != SK_UCHAR) return false;
    switch (param) {
    case 5: return uchar_both<P5>(lcp, in, out);
    case 6: return uchar_both<P6>(lcp, in, out);
    case 7: return uchar_both<P7>(lcp, in, out);
    case 8: return uchar_both<P8>(lcp, in, out);
    }
    return false;
}
}
