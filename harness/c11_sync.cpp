// harness/c11_sync.cpp -- C11: Semaphore conserves tokens and strands no
// waiter; ThreadBarrierMutex / ThreadBarrierSpin release together, run the
// action once per generation, and are reusable.
//
// Real code: tlx/semaphore.hpp, thread_barrier_mutex.hpp, thread_barrier_spin.hpp.
// Stub: mutex/condition_variable/atomic/this_thread::yield (scheduler shims).
#include "../sim/sim.hpp"

#include <tlx/semaphore.hpp>
#include <tlx/thread_barrier_mutex.hpp>
#include <tlx/thread_barrier_spin.hpp>

#include <algorithm>
#include <memory>

namespace {

using sim::Workload;
using sim::Result;
using sim::Rng;

enum { K_SEM = 0, K_BAR_MUTEX = 1, K_BAR_SPIN = 2 };
enum { S_SIGNAL1 = 0, S_SIGNALN = 1, S_WAIT = 2, S_TRY = 3 };
enum { EV_INV = 1, EV_RET, EV_ENTER, EV_ACTION, EV_LEAVE, EV_REST };
enum { CELL_ERR = 0 };

void generate(Rng& r, Workload& w, int tier) {
    int kind = int(r.below(3));
    if (kind == K_SEM) {
        int nt = int(r.range(2, 4));
        w.cfg = {K_SEM, r.range(0, 3), nt};
        int maxops = tier ? 16 : 12;
        int nops = int(r.range(1, maxops));
        bool mixed = r.chance(2, 3);
        int64_t d0 = r.range(1, 3);
        for (int i = 0; i < nops; ++i) {
            int64_t t = int64_t(r.below(uint64_t(nt)));
            uint64_t k = r.below(10);
            int64_t d = mixed ? (r.chance(1, 8) ? 0 : r.range(1, 3)) : d0;   // now and then a request for nothing
            if (k < 3) w.ops.push_back({t, S_SIGNAL1, 0, 0});
            else if (k < 5) w.ops.push_back({t, S_SIGNALN, r.range(0, 3), 0});
            else if (k < 8) w.ops.push_back({t, S_WAIT, d, mixed ? r.range(0, 2) : 0});
            else w.ops.push_back({t, S_TRY, d, r.range(0, 2)});
        }
    } else {
        int nt = int(r.range(1, tier ? 6 : 4));
        int64_t G = r.range(1, tier ? 8 : 5);
        w.cfg = {kind, G, r.chance(1, 2) ? G : int64_t(r.below(uint64_t(G + 1)))};
        for (int i = 0; i < nt; ++i) w.ops.push_back({int64_t(r.below(64))});
    }
}

// ---------------------------------------------------------------------------
// Semaphore: linearizability against a counting-semaphore model

struct SemOp { int t; int code; int64_t a, b; uint64_t inv, ret; int64_t rv; bool done; };

// Wing-Gong style search; at most 16 completed operations.
bool linearizable(const std::vector<SemOp>& ops, int64_t init, std::string& why) {
    size_t n = ops.size();
    if (n > 20) { why = "history too long"; return true; }
    std::vector<char> dead(size_t(1) << n, 0);
    // iterative DFS over subsets; value is a function of the subset given the
    // returned values, so memoising on the subset alone is sound
    struct Frame { uint32_t mask; int64_t value; size_t next; };
    std::vector<Frame> st;
    st.push_back({0, init, 0});
    uint32_t full = n == 32 ? 0xffffffffu : ((1u << n) - 1);
    while (!st.empty()) {
        Frame& f = st.back();
        if (f.mask == full) return true;
        bool pushed = false;
        for (size_t i = f.next; i < n; ++i) {
            if (f.mask & (1u << i)) continue;
            // real-time order: i may be next only if no other pending op returned before i was invoked
            bool minimal = true;
            for (size_t j = 0; j < n && minimal; ++j)
                if (j != i && !(f.mask & (1u << j)) && ops[j].ret < ops[i].inv) minimal = false;
            if (!minimal) continue;
            const SemOp& o = ops[i];
            int64_t v = f.value; bool okop = false;
            switch (o.code) {
            case S_SIGNAL1: v += 1; okop = (o.rv == v); break;
            case S_SIGNALN: v += o.a; okop = (o.rv == v); break;
            case S_WAIT: if (v >= o.a + o.b) { v -= o.a; okop = (o.rv == v); } break;
            case S_TRY:
                if (v >= o.a + o.b) { v -= o.a; okop = (o.rv == 1); } else okop = (o.rv == 0);
                break;
            }
            if (!okop) continue;
            uint32_t nm = f.mask | (1u << i);
            if (dead[nm]) continue;
            f.next = i + 1;
            st.push_back({nm, v, 0});
            pushed = true;
            break;
        }
        if (!pushed) { dead[f.mask] = 1; st.pop_back(); }
    }
    why = "no linearization of the completed operations matches a counting semaphore";
    return false;
}

std::string describe_ops(const std::vector<SemOp>& ops) {
    std::string s;
    for (auto& o : ops) {
        static const char* nm[] = {"signal", "signalN", "wait", "try_acquire"};
        s += "T" + std::to_string(o.t) + ":" + nm[o.code] + "(" + std::to_string(o.a) + "," + std::to_string(o.b) + ")";
        s += o.done ? "=" + std::to_string(o.rv) : "=blocked";
        s += "[" + std::to_string(o.inv) + "," + (o.done ? std::to_string(o.ret) : std::string("-")) + "] ";
    }
    return s;
}

void run_semaphore(const Workload& w, Result& res) {
    const int64_t init = sim::modn(sim::cfg_at(w, 1), 4);
    const int nt = int(2 + sim::modn(sim::cfg_at(w, 2) - 2, 3));
    std::vector<SemOp> ops;
    for (auto& op : w.ops) {
        if (op.size() < 2) continue;
        SemOp o{int(sim::modn(op[0], nt)), int(sim::modn(op[1], 4)), 0, 0, 0, 0, 0, false};
        int64_t a = op.size() > 2 ? op[2] : 0, b = op.size() > 3 ? op[3] : 0;
        if (o.code == S_SIGNALN) o.a = sim::modn(a, 4);
        if (o.code == S_WAIT || o.code == S_TRY) { o.a = sim::modn(a, 4); o.b = sim::modn(b, 3); }
        ops.push_back(o);
        if (ops.size() >= 16) break;
    }
    auto sem = std::make_unique<tlx::Semaphore>(size_t(init));
    tlx::Semaphore* sp = sem.get();
    std::vector<sim::Thread> th;
    for (int t = 0; t < nt; ++t) {
        th.emplace_back([t, sp, &ops]() {
            for (size_t i = 0; i < ops.size(); ++i) {
                const SemOp& o = ops[i];
                if (o.t != t) continue;
                sim::event(EV_INV, int64_t(i));
                int64_t rv = 0;
                switch (o.code) {
                case S_SIGNAL1: rv = int64_t(sp->signal()); break;
                case S_SIGNALN: rv = int64_t(sp->signal(size_t(o.a))); break;
                case S_WAIT: rv = int64_t(sp->wait(size_t(o.a), size_t(o.b))); break;
                case S_TRY: rv = sp->try_acquire(size_t(o.a), size_t(o.b)) ? 1 : 0; break;
                }
                sim::event(EV_RET, int64_t(i), rv);
            }
        });
    }
    // run until nobody can move: every thread has finished or is blocked
    sim::await_quiescence();
    uint64_t rest = sim::event(EV_REST);
    int blocked = sim::rt_blocked_count();
    if (blocked > 0) {
        res.probe("rest_with_blocked_waiter");
        // release the blocked waiters so that the run can be torn down;
        // nothing after the rest point is checked
        sp->signal(1000);
    }
    for (auto& t : th) t.join();

    size_t nev; const sim::Event* ev = sim::rt_events(&nev);
    for (size_t i = 0; i < nev; ++i) {
        const sim::Event& e = ev[i];
        if (e.seq > rest) break;
        if (e.kind == EV_INV) ops[size_t(e.a)].inv = e.seq + 1;
        if (e.kind == EV_RET) { ops[size_t(e.a)].ret = e.seq + 1; ops[size_t(e.a)].rv = e.b; ops[size_t(e.a)].done = true; }
    }
    std::vector<SemOp> completed, pending;
    int64_t value = init;
    for (auto& o : ops) {
        if (o.inv == 0) continue;            // never invoked (after a blocked op of its thread)
        if (o.done) {
            completed.push_back(o);
            if (o.code == S_SIGNAL1) value += 1;
            if (o.code == S_SIGNALN) value += o.a;
            if (o.code == S_WAIT) value -= o.a;
            if (o.code == S_TRY && o.rv == 1) value -= o.a;
        } else pending.push_back(o);
    }
    std::string why;
    if (!linearizable(completed, init, why))
        res.fail("sem_linearizability", why + ": init=" + std::to_string(init) + " " + describe_ops(ops));
    if (value < 0)
        res.fail("sem_conservation", "more tokens handed out than signalled: " + describe_ops(ops));
    for (auto& o : pending) {
        if (o.code != S_WAIT) {
            res.fail("sem_blocked_nonwait", "a non-blocking call did not return: " + describe_ops(ops));
            continue;
        }
        if (value >= o.a + o.b)
            res.fail("sem_stranded_waiter",
                     "at rest, value=" + std::to_string(value) + " covers the blocked wait(" + std::to_string(o.a) + "," +
                         std::to_string(o.b) + ") of T" + std::to_string(o.t) + ": init=" + std::to_string(init) + " " + describe_ops(ops));
    }
    bool mixed = false;
    for (auto& o : ops) for (auto& q : ops)
        if ((o.code == S_WAIT) && (q.code == S_WAIT) && (o.a + o.b != q.a + q.b)) mixed = true;
    if (mixed) res.probe("sem_mixed_requests");
    res.probe("sem_run");
    res.probe("sem_ops_completed", completed.size());
}

// ---------------------------------------------------------------------------
// Barriers

template <class Barrier>
void run_barrier(const Workload& w, Result& res, const char* name) {
    const int G = int(1 + sim::modn(sim::cfg_at(w, 1) - 1, 8));
    int nt = int(w.ops.size());
    if (nt < 1) nt = 1;
    if (nt > 6) nt = 6;
    std::vector<int64_t> flags;
    for (int t = 0; t < nt; ++t) flags.push_back(size_t(t) < w.ops.size() && !w.ops[size_t(t)].empty() ? w.ops[size_t(t)][0] : 0);
    auto bar = std::make_unique<Barrier>(size_t(nt));
    Barrier* bp = bar.get();
    // the same team may move on to a second barrier object after S generations (S == G: one barrier only)
    const int S = int(sim::modn(sim::cfg_at(w, 2, G), G + 1));
    auto bar2 = std::make_unique<Barrier>(size_t(nt));
    Barrier* bp2 = bar2.get();
    if (S > 0 && S < G) res.probe("barrier_team_moves_to_second_barrier");
    // plain, unsynchronised cells: written before a crossing, read by all after it
    std::vector<std::vector<int> > slots(size_t(G), std::vector<int>(size_t(nt), 0));
    std::vector<int> action_count(size_t(G), 0);
    int total_actions = 0;
    auto body = [&](int t) {
        for (int g = 0; g < G; ++g) {
            slots[size_t(g)][size_t(t)] = 100 * t + g + 1;
            sim::event(EV_ENTER, g, t);
            Barrier* b = g < S ? bp : bp2;
            auto action = [&, g, b]() {
                sim::event(EV_ACTION, g, sim::rt_tid());
                (void)b->step();   // an action may look at its own barrier (e.g. pick a buffer by the generation bit)
                action_count[size_t(g)]++;
                total_actions++;
                // the action runs after everybody has arrived: it sees every participant's pre-barrier write
                for (int u = 0; u < nt; ++u)
                    if (slots[size_t(g)][size_t(u)] != 100 * u + g + 1) sim::rt_cell_add(CELL_ERR, 1);
            };
            if ((flags[size_t(t)] >> g) & 1) b->wait_yield(action); else b->wait(action);
            sim::event(EV_LEAVE, g, t);
            for (int u = 0; u < nt; ++u)
                if (slots[size_t(g)][size_t(u)] != 100 * u + g + 1) sim::rt_cell_add(CELL_ERR, 1);
            if (action_count[size_t(g)] != 1) sim::rt_cell_add(CELL_ERR + 1, 1);
        }
    };
    std::vector<sim::Thread> th;
    for (int t = 1; t < nt; ++t) th.emplace_back(body, t);
    body(0);
    for (auto& t : th) t.join();

    size_t nev; const sim::Event* ev = sim::rt_events(&nev);
    std::vector<uint64_t> max_enter(size_t(G), 0), min_leave(size_t(G), UINT64_MAX), act_seq(size_t(G), 0);
    std::vector<int> nact(size_t(G), 0), nenter(size_t(G), 0), nleave(size_t(G), 0);
    for (size_t i = 0; i < nev; ++i) {
        const sim::Event& e = ev[i];
        size_t g = size_t(e.a);
        if (e.kind == EV_ENTER) { nenter[g]++; max_enter[g] = std::max(max_enter[g], e.seq); }
        if (e.kind == EV_LEAVE) { nleave[g]++; min_leave[g] = std::min(min_leave[g], e.seq); }
        if (e.kind == EV_ACTION) { nact[g]++; act_seq[g] = e.seq; }
    }
    std::string nm = name;
    for (int g = 0; g < G; ++g) {
        size_t gi = size_t(g);
        std::string at = nm + " n=" + std::to_string(nt) + " generation " + std::to_string(g);
        if (nenter[gi] != nt || nleave[gi] != nt) res.fail("barrier_incomplete", at + ": not all threads crossed");
        if (min_leave[gi] < max_enter[gi])
            res.fail("barrier_early_release", at + ": a thread left before all participants had entered");
        if (nact[gi] != 1) res.fail("barrier_action_count", at + ": action ran " + std::to_string(nact[gi]) + " times");
        else if (act_seq[gi] < max_enter[gi] || act_seq[gi] > min_leave[gi])
            res.fail("barrier_action_order", at + ": action did not run after the last arrival and before the first release");
    }
    if (sim::rt_cell_get(CELL_ERR) != 0)
        res.fail("barrier_visibility", nm + ": a thread did not see another participant's pre-barrier write");
    if (sim::rt_cell_get(CELL_ERR + 1) != 0)
        res.fail("barrier_action_count", nm + ": a released thread saw an action count != 1 for its generation");
    if (total_actions != G) res.fail("barrier_action_count", nm + ": total actions " + std::to_string(total_actions));
    res.probe(nm == "mutex" ? "barrier_mutex_run" : "barrier_spin_run");
    if (G >= 3 && nt >= 2) res.probe("barrier_reused_3plus");
}

void execute(const Workload& w, Result& res) {
    switch (sim::modn(sim::cfg_at(w, 0), 3)) {
    case K_SEM: run_semaphore(w, res); break;
    case K_BAR_MUTEX: run_barrier<tlx::ThreadBarrierMutex>(w, res, "mutex"); break;
    case K_BAR_SPIN: run_barrier<tlx::ThreadBarrierSpin>(w, res, "spin"); break;
    }
}

const sim::HarnessDef def = {"C11", true, 30, generate, execute, nullptr};

} // namespace

int main(int argc, char** argv) { return sim::worker_main(argc, argv, def); }
