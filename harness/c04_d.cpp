#include "c04/c04_params.hpp"
namespace c04 {
bool run_d(int param, int setkind, bool lcp, const Input& in, Output& out) {
    if (setkind == SK_UPTR && param == 1) { if (lcp) sort_uptr<P1, true>(in, out); else sort_uptr<P1, false>(in, out); return true; }
    if (setkind == SK_UPTR && param == 5) { if (lcp) sort_uptr<P5, true>(in, out); else sort_uptr<P5, false>(in, out); return true; }
    if (setkind == SK_SUFFIX && param == 1) { if (lcp) sort_suffix<P1, true>(in, out); else sort_suffix<P1, false>(in, out); return true; }
    if (setkind == SK_SUFFIX && param == 4) { if (lcp) sort_suffix<P4, true>(in, out); else sort_suffix<P4, false>(in, out); return true; }
    return false;
}
}
