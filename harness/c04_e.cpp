// default parameters through the public front ends of tlx/sort/strings_parallel.hpp
#include "c04/c04_params.hpp"
namespace c04 {
bool run_e(int param, int setkind, bool lcp, const Input& in, Output& out) {
    if (param != 0) return false;
    const size_t n = in.strings.size();
    if (setkind == SK_UCHAR || setkind == SK_CCHAR) {
        size_t total = 0;
        for (auto& s : in.strings) total += s.size() + 1;
        std::vector<unsigned char> buf(total + 1);
        std::vector<unsigned char*> ptrs(n);
        std::map<const void*, long> idx;
        size_t off = 0;
        for (size_t i = 0; i < n; ++i) {
            memcpy(buf.data() + off, in.strings[i].data(), in.strings[i].size());
            buf[off + in.strings[i].size()] = 0;
            ptrs[i] = buf.data() + off; idx[ptrs[i]] = long(i);
            off += in.strings[i].size() + 1;
        }
        ptrs.shrink_to_fit();
        std::vector<std::uint32_t> lcpv(lcp ? n : 0, LCP_POISON);
        if (setkind == SK_UCHAR) {
            if (lcp) tlx::sort_strings_parallel_lcp(ptrs.data(), n, lcpv.data()); else tlx::sort_strings_parallel(ptrs, 0);
        } else {
            const char** cp = (const char**)(ptrs.data());
            if (lcp) tlx::sort_strings_parallel_lcp(cp, n, lcpv.data()); else tlx::sort_strings_parallel(cp, n);
        }
        for (size_t i = 0; i < n; ++i) {
            auto it = idx.find(ptrs[i]);
            out.origin.push_back(it == idx.end() ? -2 : it->second);
            out.strings.push_back(it == idx.end() ? std::string("<foreign pointer>") : std::string(reinterpret_cast<const char*>(ptrs[i])));
        }
        out.lcp = lcpv;
        return true;
    }
    if (setkind == SK_STDSTRING) {
        std::vector<std::string> v = in.strings;
        std::vector<std::uint32_t> lcpv(lcp ? n : 0, LCP_POISON);
        if (lcp) tlx::sort_strings_parallel_lcp(v, lcpv.data()); else tlx::sort_strings_parallel(v);
        for (size_t i = 0; i < n; ++i) { out.strings.push_back(v[i]); out.origin.push_back(-1); }
        out.lcp = lcpv;
        return true;
    }
    return false;
}
}
