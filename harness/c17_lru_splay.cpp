// harness/c17_lru_splay.cpp -- C17: LRU caches evict in true LRU order and
// throw exactly for absent keys; SplayTree is a correct ordered (multi)set
// and frees every node exactly once.
//
// Single task.  Real code: tlx/container/lru_cache.hpp, splay_tree.hpp.
// Simulator-owned environment: the allocator (sim::Alloc as Alloc/Allocator
// argument: list nodes, hash nodes and buckets, splay nodes) with seeded
// recycling / poisoning / quarantine / canaries and the node ledger.
// Reference models: a recency list; std::set / std::multiset.
#include "../sim/sim.hpp"
#include "../sim/alloc.hpp"
#include "../sim/tracked.hpp"

#include <tlx/container/lru_cache.hpp>
#include <tlx/container/splay_tree.hpp>

#include <algorithm>
#include <list>
#include <map>
#include <memory>
#include <set>
#include <stdexcept>

namespace {

using sim::Workload;
using sim::Result;
using sim::Rng;

enum { C_PART = 0, C_QLEN, C_RECYCLE, C_ARENA };
enum { P_LRU_SET = 0, P_LRU_MAP, P_SPLAY_SET, P_SPLAY_MULTI, P_SPLAY_SET_TRACKED, P_SPLAY_MULTI_TRACKED, P_LRU_SET_HEAP, P_LRU_MAP_HEAP, P_SPLAY_SET_DIR, P_SPLAY_MULTI_DIR, P_N };
enum { L_PUT = 0, L_TOUCH, L_TOUCH_IF, L_GET, L_GET_TOUCH, L_ERASE, L_ERASE_IF, L_EXISTS, L_POP, L_CLEAR, L_PUT_OWN_VALUE, L_ERASE_BY_OWN_VALUE, L_N };
enum { S_INSERT = 0, S_ERASE, S_EXISTS, S_FIND, S_CLEAR, S_ERASE_NODE, S_KEEP_NODE, S_ERASE_KEPT, S_N };
const uint32_t RECYCLE[] = {0, 300, 700, 1000};
constexpr int KEYS = 8;

void generate(Rng& r, Workload& w, int tier) {
    int part = int(r.below(P_N));
    w.cfg = {part, int64_t(r.below(5)), int64_t(r.below(4)), int64_t(r.below(2))};   // last: the LRU caches get an allocator instance unequal to a default-constructed one
    int n = int(r.range(1, tier ? 200 : 50));
    // a splay tree has no depth bound: a long monotone history (here: one key inserted many times into a
    // multiset) makes a spine of that length, which the traversals and clear() must cope with
    if ((part == P_SPLAY_MULTI || part == P_SPLAY_MULTI_TRACKED || part == P_SPLAY_MULTI_DIR) && r.chance(1, 6)) {
        int run = int(r.range(65, tier ? 300 : 100));
        int64_t k = int64_t(r.below(KEYS));
        for (int i = 0; i < run; ++i) w.ops.push_back({S_INSERT, k, 0});
    }
    for (int i = 0; i < n; ++i) {
        int64_t code;
        const bool lru = part <= P_LRU_MAP || part == P_LRU_SET_HEAP || part == P_LRU_MAP_HEAP;
        if (lru) code = r.chance(1, 3) ? L_PUT : int64_t(r.below(L_N));
        else code = r.chance(2, 5) ? S_INSERT : int64_t(r.below(S_N));
        if ((code == L_CLEAR && lru) || (code == S_CLEAR && !lru))
            if (!r.chance(1, 3)) code = 0;
        w.ops.push_back({code, int64_t(r.below(KEYS)), int64_t(r.below(100))});
    }
}

// ---- LRU ----------------------------------------------------------------------
// key / value types for the LRU caches
struct HKey {
    sim::Tracked t;
    HKey() : t(0, 0) {}
    explicit HKey(int k) : t(k, k) {}
    bool operator==(const HKey& o) const { return t.k() == o.t.k(); }
};
} // namespace
namespace std {
template <> struct hash<HKey> { size_t operator()(const HKey& k) const { return size_t(k.t.k()) * 0x9e3779b97f4a7c15ull; } };
} // namespace std
namespace {
template <class T> T lru_mk(int x);
template <> int lru_mk<int>(int x) { return x; }
template <> HKey lru_mk<HKey>(int x) { return HKey(x); }
inline int lru_val(int x) { return x; }
inline int lru_val(const HKey& k) { return k.t.k(); }

// K / V: int, or a heap-owning type whose move empties the source (like std::string)
template <bool IsMap, class K, class V>
void run_lru(const Workload& w, Result& res) {
    using Set = tlx::LruCacheSet<K, sim::Alloc<K> >;
    using Map = tlx::LruCacheMap<K, V, sim::Alloc<std::pair<K, V> > >;
    auto K_ = [](int x) { return lru_mk<K>(x); };
    auto V_ = [](int x) { return lru_mk<V>(x); };
    // a stateful allocator instance that is not equal to a default-constructed one (every block must go back
    // through an allocator equal to the one it came from)
    const int arena = sim::modn(sim::cfg_at(w, C_ARENA), 2) == 1 ? 1 : 0;
    if (arena) res.probe("lru_with_allocator_instance");
    auto set = std::make_unique<Set>(sim::Alloc<K>(arena));
    auto map = std::make_unique<Map>(sim::Alloc<std::pair<K, V> >(arena));
    std::list<int> order;                // front = most recently put or touched
    std::map<int, int> value;
    static const char* names[] = {"put", "touch", "touch_if_exists", "get", "get_touch", "erase", "erase_if_exists", "exists", "pop", "clear", "put_own_value", "erase_by_own_value"};
    int step = 0;
    auto present = [&](int k) { return std::find(order.begin(), order.end(), k) != order.end(); };
    auto to_front = [&](int k) { order.remove(k); order.push_front(k); };
    for (auto& op : w.ops) {
        if (op.empty()) continue;
        int code = int(sim::modn(op[0], L_N));
        int k = int(sim::modn(op.size() > 1 ? op[1] : 0, KEYS));
        int v = int(sim::modn(op.size() > 2 ? op[2] : 0, 1000)) + 1000 * (step + 1);
        const bool had = present(k);
        bool threw = false, wrong_exc = false;
        std::string at = std::string(names[code]) + "(" + std::to_string(k) + ") at step " + std::to_string(step);
        try {
            switch (code) {
            case L_PUT: if (IsMap) map->put(K_(k), V_(v)); else set->put(K_(k)); to_front(k); value[k] = v; break;
            // put(k, get(k)): the value argument is the reference to the stored value of the same key
            case L_PUT_OWN_VALUE:
                if (IsMap && had) { map->put(K_(k), map->get(K_(k))); to_front(k); res.probe("put_with_reference_to_own_value"); }
                break;
            // erase(get(k)) where the stored value equals the key (K and V are the same type here): the key argument
            // is a reference into the very node that is erased
            case L_ERASE_BY_OWN_VALUE:
                if (IsMap) {
                    map->put(K_(k), V_(k)); to_front(k); value[k] = k;
                    if (step % 2 == 0) map->erase(map->get(K_(k))); else map->erase_if_exists(map->get(K_(k)));
                    order.remove(k); value.erase(k);
                    res.probe("erase_with_reference_to_own_value");
                }
                break;
            case L_TOUCH: if (IsMap) map->touch(K_(k)); else set->touch(K_(k)); if (had) to_front(k); break;
            case L_TOUCH_IF: {
                bool rv = IsMap ? map->touch_if_exists(K_(k)) : set->touch_if_exists(K_(k));
                if (rv != had) res.fail("lru_return", "touch_if_exists returned " + std::to_string(rv) + " for " + (had ? "present" : "absent") + " key, " + at);
                if (had) to_front(k);
                break;
            }
            case L_GET:
                if (IsMap) { int got = lru_val(map->get(K_(k))); if (had && got != value[k]) res.fail("lru_value", "get returned " + std::to_string(got) + " expected " + std::to_string(value[k]) + ", " + at); }
                else { bool e = set->exists(K_(k)); if (e != had) res.fail("lru_return", "exists wrong, " + at); if (!had) threw = true; }
                break;
            case L_GET_TOUCH:
                if (IsMap) { int got = lru_val(map->get_touch(K_(k))); if (had && got != value[k]) res.fail("lru_value", "get_touch returned " + std::to_string(got) + " expected " + std::to_string(value[k]) + ", " + at); if (had) to_front(k); }
                else { set->touch(K_(k)); if (had) to_front(k); }
                break;
            case L_ERASE: if (IsMap) map->erase(K_(k)); else set->erase(K_(k)); if (had) { order.remove(k); value.erase(k); } break;
            case L_ERASE_IF: {
                bool rv = IsMap ? map->erase_if_exists(K_(k)) : set->erase_if_exists(K_(k));
                if (rv != had) res.fail("lru_return", "erase_if_exists returned " + std::to_string(rv) + ", " + at);
                if (had) { order.remove(k); value.erase(k); }
                break;
            }
            case L_EXISTS: {
                bool e = IsMap ? map->exists(K_(k)) : set->exists(K_(k));
                if (e != had) res.fail("lru_return", "exists returned " + std::to_string(e) + ", " + at);
                break;
            }
            case L_POP:
                if (!order.empty()) {
                    int lru = order.back();
                    if (IsMap) {
                        auto kv = map->pop();
                        if (lru_val(kv.first) != lru || lru_val(kv.second) != value[lru])
                            res.fail("lru_pop_order", "pop returned (" + std::to_string(lru_val(kv.first)) + "," + std::to_string(lru_val(kv.second)) + "), the least recently used key is " + std::to_string(lru) + ", " + at);
                    } else {
                        int got = lru_val(set->pop());
                        if (got != lru) res.fail("lru_pop_order", "pop returned " + std::to_string(got) + ", the least recently used key is " + std::to_string(lru) + ", " + at);
                    }
                    order.pop_back(); value.erase(lru);
                    res.probe("lru_pop");
                }
                break;
            case L_CLEAR: if (IsMap) map->clear(); else set->clear(); order.clear(); value.clear(); res.probe("lru_clear"); break;
            }
        } catch (const std::range_error&) {
            threw = true;
        } catch (...) {
            threw = true; wrong_exc = true;
        }
        const bool throwing_call = code == L_TOUCH || code == L_ERASE || (IsMap && (code == L_GET || code == L_GET_TOUCH)) || (!IsMap && code == L_GET_TOUCH);
        if (!IsMap && code == L_GET) threw = false;   // no throwing get on the set
        if (wrong_exc) res.fail("lru_exception", "a different exception type than std::range_error was thrown, " + at);
        else if (throwing_call && threw != !had)
            res.fail("lru_exception", std::string(threw ? "std::range_error thrown for a present key, " : "no exception for an absent key, ") + at);
        else if (!throwing_call && threw) res.fail("lru_exception", "exception from a call that must not throw, " + at);
        if (throwing_call && !had) res.probe("lru_absent_key_exception");
        size_t sz = IsMap ? map->size() : set->size();
        if (sz != order.size()) res.fail("lru_size", "size()=" + std::to_string(sz) + " model " + std::to_string(order.size()) + ", " + at);
        for (int q = 0; q < KEYS && res.ok; ++q) {
            bool e = IsMap ? map->exists(K_(q)) : set->exists(K_(q));
            if (e != present(q)) res.fail("lru_membership", "key " + std::to_string(q) + (e ? " present" : " absent") + " but the model says otherwise, " + at);
        }
        sim::rt_note(uint32_t(code), uint32_t(order.size()));
        res.probe(names[code]);
        ++step;
        if (!res.ok) break;
    }
    // drain: the complete eviction order must be the model's
    while (res.ok && !order.empty()) {
        int lru = order.back();
        int got = IsMap ? lru_val(map->pop().first) : lru_val(set->pop());
        if (got != lru) res.fail("lru_pop_order", "final drain returned " + std::to_string(got) + ", expected " + std::to_string(lru));
        order.pop_back();
    }
    set = nullptr; map = nullptr;
}

// ---- SplayTree ------------------------------------------------------------------
struct TLess { bool operator()(const sim::Tracked& a, const sim::Tracked& b) const { return a.k() < b.k(); } };
template <class K> K mkkey(int k);
template <> int mkkey<int>(int k) { return k; }
template <> sim::Tracked mkkey<sim::Tracked>(int k) { return sim::Tracked(k, k); }
int keyval(const int& k) { return k; }
int keyval(const sim::Tracked& k) { return k.k(); }
// a comparator whose order is run-time state (differs from a default-constructed one): the tree must use the
// object it was given, SplayTree(Compare cmp, Allocator alloc)
struct DirCmp {
    bool desc = false;
    DirCmp() = default;
    explicit DirCmp(bool d) : desc(d) {}
    bool operator()(int a, int b) const { return desc ? a > b : a < b; }
};
template <class Cmp> Cmp make_cmp(bool) { return Cmp(); }
template <> DirCmp make_cmp<DirCmp>(bool desc) { return DirCmp(desc); }

template <class K, class Cmp, bool Dup>
void run_splay(const Workload& w, Result& res) {
    using Tree = tlx::SplayTree<K, Cmp, Dup, sim::Alloc<K> >;
    const bool tracked = !std::is_same<K, int>::value;
    // the model holds tr(key): with the descending run-time comparator the key order is mirrored
    const bool dir = std::is_same<Cmp, DirCmp>::value;
    const bool desc = dir && sim::modn(sim::cfg_at(w, C_QLEN), 2) == 1;
    const int arena = dir && sim::modn(sim::cfg_at(w, C_ARENA), 2) == 1 ? 1 : 0;
    auto tr = [desc](int x) { return desc ? KEYS - 1 - x : x; };
    if (desc) res.probe("splay_descending_runtime_comparator");
    if (arena) res.probe("splay_with_allocator_instance");
    auto tree = dir ? std::make_unique<Tree>(make_cmp<Cmp>(desc), sim::Alloc<K>(arena)) : std::make_unique<Tree>();
    std::multiset<int> model;
    static const char* names[] = {"insert", "erase", "exists", "find", "clear", "erase_node", "keep_node", "erase_kept_node"};
    int step = 0;
    decltype(tree->find(mkkey<K>(0))) kept = nullptr;
    int kept_key = -1;
    const int64_t live0 = sim::tracked_live();
    for (auto& op : w.ops) {
        if (op.empty()) continue;
        int code = int(sim::modn(op[0], S_N));
        int k = int(sim::modn(op.size() > 1 ? op[1] : 0, KEYS));
        std::string at = std::string(names[code]) + "(" + std::to_string(k) + ") at step " + std::to_string(step) + (Dup ? " [multiset]" : " [set]");
        const int mk = tr(k);
        const bool had = model.count(mk) > 0;
        switch (code) {
        case S_INSERT: {
            bool rv = tree->insert(mkkey<K>(k));
            bool expect = Dup || !had;
            if (rv != expect) res.fail("splay_return", "insert returned " + std::to_string(rv) + ", " + at);
            if (expect) model.insert(mk);
            break;
        }
        case S_ERASE: {
            if (k == kept_key) kept = nullptr;   // (which of the equal nodes goes is the tree's business)
            bool rv = tree->erase(mkkey<K>(k));
            if (rv != had) res.fail("splay_return", "erase returned " + std::to_string(rv) + ", " + at);
            if (had) model.erase(model.find(mk));
            break;
        }
        case S_EXISTS: {
            if (model.empty()) res.probe("splay_exists_on_empty");
            bool rv = tree->exists(mkkey<K>(k));
            if (rv != had) res.fail("splay_return", "exists returned " + std::to_string(rv) + ", " + at);
            break;
        }
        case S_FIND: {
            auto* n = tree->find(mkkey<K>(k));
            if (model.empty()) { if (n != nullptr) res.fail("splay_return", "find on the empty tree returned a node, " + at); }
            else if (n == nullptr) res.fail("splay_return", "find returned nullptr on a non-empty tree, " + at);
            else {
                int got = keyval(n->key);
                if (had) { if (got != k) res.fail("splay_return", "find returned key " + std::to_string(got) + ", " + at); }
                else {
                    // the node reached last: the predecessor or the successor of k
                    auto it = model.lower_bound(mk);
                    bool okn = (it != model.end() && *it == tr(got)) || (it != model.begin() && *std::prev(it) == tr(got));
                    if (!okn) res.fail("splay_return", "find for an absent key returned " + std::to_string(got) + ", not a neighbour, " + at);
                }
            }
            break;
        }
        case S_CLEAR: tree->clear(); model.clear(); kept = nullptr; res.probe("splay_clear"); break;
        // a node pointer obtained from find() is kept over later insertions (nodes are stable) and erased
        // through erase(node) when it is no longer the node a fresh find() would return
        case S_KEEP_NODE: {
            auto* n = tree->find(mkkey<K>(k));
            if (n != nullptr && had && keyval(n->key) == k) { kept = n; kept_key = k; }
            break;
        }
        case S_ERASE_KEPT:
            if (kept != nullptr) {
                bool rv = tree->erase(kept);
                if (!rv) res.fail("splay_return", "erase(node) of a node obtained earlier returned false, " + at);
                model.erase(model.find(tr(kept_key)));
                kept = nullptr;
                res.probe("splay_erase_node_kept_over_inserts");
            }
            break;
        case S_ERASE_NODE: {
            if (k == kept_key) kept = nullptr;
            auto* n = tree->find(mkkey<K>(k));
            if (n != nullptr && had && keyval(n->key) == k) {
                bool rv = tree->erase(n);
                if (!rv) res.fail("splay_return", "erase(node) returned false, " + at);
                model.erase(model.find(mk));
            }
            break;
        }
        }
        if (tree->size() != model.size() || tree->empty() != model.empty())
            res.fail("splay_size", "size()=" + std::to_string(tree->size()) + " model " + std::to_string(model.size()) + ", " + at);
        if (res.ok) {
            std::vector<int> seq;
            tree->traverse_preorder([&seq, &tr](const K& key) { seq.push_back(tr(keyval(key))); });
            std::vector<int> exp(model.begin(), model.end());
            if (seq != exp) res.fail("splay_order", "in-order key sequence differs from the model (" + std::to_string(seq.size()) + " vs " + std::to_string(exp.size()) + " keys), " + at);
            // the same traversal with a function object that keeps what it saw in its own state
            struct Collector { bool desc; mutable std::vector<int> seen; void operator()(const K& key) const { int x = keyval(key); seen.push_back(desc ? KEYS - 1 - x : x); } };
            Collector col{desc, {}};
            tree->traverse_preorder(col);
            if (res.ok && col.seen != exp) res.fail("splay_order", "a collecting function object passed to the traversal saw " + std::to_string(col.seen.size()) + " keys, the model has " + std::to_string(exp.size()) + ", " + at);
        }
        if (res.ok && !Dup && !tree->check()) res.fail("splay_invalid_tree", "check() failed, " + at);
        if (tracked && res.ok) {
            if (sim::tracked_err_destroy()) res.fail("splay_lifetime", "a key was destroyed twice, " + at);
            else if (sim::tracked_err_use()) res.fail("splay_lifetime", "a destroyed key was used, " + at);
            else if (sim::tracked_live() - live0 != int64_t(model.size()))
                res.fail("splay_lifetime", std::to_string(sim::tracked_live() - live0) + " keys alive, " + std::to_string(model.size()) + " stored, " + at);
        }
        if (res.ok && sim::alloc_env().live_blocks() != model.size())
            res.fail("splay_nodes", std::to_string(sim::alloc_env().live_blocks()) + " nodes allocated, " + std::to_string(model.size()) + " keys stored, " + at);
        sim::rt_note(uint32_t(0x300 + code), uint32_t(model.size()));
        res.probe(names[code]);
        ++step;
        if (!res.ok) break;
    }
    tree = nullptr;
    if (tracked && res.ok && sim::tracked_live() != live0) res.fail("splay_lifetime", "keys alive after the tree was destroyed");
    if (tracked && res.ok && sim::tracked_err_destroy()) res.fail("splay_lifetime", "a key was destroyed twice during destruction");
}

void execute(const Workload& w, Result& res) {
    const int part = int(sim::modn(sim::cfg_at(w, C_PART), P_N));
    sim::alloc_env().reset(size_t(sim::modn(sim::cfg_at(w, C_QLEN), 5)), RECYCLE[sim::modn(sim::cfg_at(w, C_RECYCLE), 4)]);
    switch (part) {
    case P_LRU_SET: res.probe("lru_set"); run_lru<false, int, int>(w, res); break;
    case P_LRU_MAP: res.probe("lru_map"); run_lru<true, int, int>(w, res); break;
    case P_LRU_SET_HEAP: res.probe("lru_set_heap_keys"); run_lru<false, HKey, HKey>(w, res); break;
    case P_LRU_MAP_HEAP: res.probe("lru_map_heap_keys_and_values"); run_lru<true, HKey, HKey>(w, res); break;
    case P_SPLAY_SET: res.probe("splay_set"); run_splay<int, std::less<int>, false>(w, res); break;
    case P_SPLAY_MULTI: res.probe("splay_multiset"); run_splay<int, std::less<int>, true>(w, res); break;
    case P_SPLAY_SET_DIR: res.probe("splay_set_runtime_cmp"); run_splay<int, DirCmp, false>(w, res); break;
    case P_SPLAY_MULTI_DIR: res.probe("splay_multiset_runtime_cmp"); run_splay<int, DirCmp, true>(w, res); break;
    case P_SPLAY_SET_TRACKED: res.probe("splay_set_heap_keys"); run_splay<sim::Tracked, TLess, false>(w, res); break;
    default: res.probe("splay_multiset_heap_keys"); run_splay<sim::Tracked, TLess, true>(w, res); break;
    }
    // "frees every node exactly once" is said of the splay tree; for the LRU caches a node that is never returned
    // is counted, not judged (double / foreign release and writes to released nodes are judged everywhere)
    const bool is_lru = part <= P_LRU_MAP || part == P_LRU_SET_HEAP || part == P_LRU_MAP_HEAP;
    sim::alloc_env().finish(!is_lru);
    if (is_lru && sim::alloc_env().leaked_blocks()) res.probe("beyond_c17.lru_node_not_returned", sim::alloc_env().leaked_blocks());
    for (auto& e : sim::alloc_env().errors()) res.fail("alloc_ledger", e);
    if (sim::alloc_env().recycled()) res.probe("recycled_blocks", sim::alloc_env().recycled());
}

const sim::HarnessDef def = {"C17", true, 30, generate, execute, nullptr};

} // namespace

int main(int argc, char** argv) { return sim::worker_main(argc, argv, def); }
