// Self-test of the simulator's shims (not a property check): small programs
// written inside namespace tlx -- so they get the same tlx::std shadow as the
// library -- that use the primitives tlx does not use today but a change to it
// could.  Scenarios 0..19 are correct and must stay quiet in every flavour;
// scenarios 20.. are wrong in one specific way and must be reported with the
// class listed in run/selftest.py.  Chosen by the environment variable
// SELFTEST_SCENARIO (run/selftest.py sets it).
#include "sim/sim.hpp"

#include <chrono>
#include <cstdlib>
#include <deque>
#include <string>
#include <vector>

namespace tlx {
namespace selftest {

using ms = std::chrono::milliseconds;

struct Ctx {
    int threads, iters;
    sim::Result* r;
};

static void spawn(int n, const std::function<void(int)>& f) {
    std::vector<std::thread> th;
    for (int i = 0; i < n; ++i) th.emplace_back(f, i);
    for (auto& t : th) t.join();
}

// 0: recursive_mutex, nested
static void s_recursive(Ctx c) {
    std::recursive_mutex m;
    long counter = 0;
    std::function<void(int)> rec = [&](int d) {
        std::lock_guard<std::recursive_mutex> g(m);
        ++counter;
        if (d > 0) rec(d - 1);
    };
    spawn(c.threads, [&](int) { for (int i = 0; i < c.iters; ++i) rec(2); });
    if (counter != long(c.threads) * c.iters * 3) c.r->fail("selftest", "recursive_mutex lost an update");
}

// 1: shared_mutex readers / writers
static void s_shared(Ctx c) {
    std::shared_mutex m;
    long a = 0, b = 0;
    bool torn = false;
    spawn(c.threads, [&](int i) {
        for (int k = 0; k < c.iters; ++k) {
            if (i % 2 == 0) { std::unique_lock<std::shared_mutex> g(m); ++a; ++b; }
            else { std::shared_lock<std::shared_mutex> g(m); if (a != b) torn = true; }
        }
    });
    if (torn) c.r->fail("selftest", "shared_mutex reader saw a torn pair");
}

// 2: atomic_flag spin lock (acquire / release) with yield
static void s_flag_lock(Ctx c, bool relaxed) {
    std::atomic_flag f;
    long counter = 0;
    const std::memory_order acq = relaxed ? std::memory_order_relaxed : std::memory_order_acquire;
    const std::memory_order rel = relaxed ? std::memory_order_relaxed : std::memory_order_release;
    spawn(c.threads, [&](int) {
        for (int k = 0; k < c.iters; ++k) {
            while (f.test_and_set(acq)) std::this_thread::yield();
            ++counter;
            f.clear(rel);
        }
    });
    if (counter != long(c.threads) * c.iters) c.r->fail("selftest", "atomic_flag lock lost an update");
}

// 3: timed_mutex with try_lock_for in a loop
static void s_timed_mutex(Ctx c) {
    std::timed_mutex m;
    long counter = 0;
    spawn(c.threads, [&](int) {
        for (int k = 0; k < c.iters; ++k) {
            while (!m.try_lock_for(ms(5))) std::this_thread::yield();
            ++counter;
            m.unlock();
        }
    });
    if (counter != long(c.threads) * c.iters) c.r->fail("selftest", "timed_mutex lost an update");
}

// 4: bounded queue, wait_for with predicate in loops
static void s_queue_wait_for(Ctx c) {
    std::mutex m;
    std::condition_variable not_empty, not_full;
    std::deque<int> q;
    long sum = 0;
    const int producers = (c.threads + 1) / 2, consumers = producers;
    spawn(producers + consumers, [&](int i) {
        for (int k = 0; k < c.iters; ++k) {
            std::unique_lock<std::mutex> l(m);
            if (i < producers) {
                while (!not_full.wait_for(l, ms(250), [&] { return q.size() < 2; })) {}
                q.push_back(k + 1);
                not_empty.notify_one();
            } else {
                while (!not_empty.wait_for(l, ms(250), [&] { return !q.empty(); })) {}
                sum += q.front(); q.pop_front();
                not_full.notify_one();
            }
        }
    });
    if (sum != long(producers) * c.iters * (c.iters + 1) / 2) c.r->fail("selftest", "queue lost an item");
}

// 5: sleep_for polling on a release/acquire flag, plain data handed over
static void s_sleep_poll(Ctx c) {
    std::atomic<bool> flag(false);
    long data = 0, seen = -1;
    std::thread prod([&] { data = 42; flag.store(true, std::memory_order_release); });
    std::thread cons([&] {
        while (!flag.load(std::memory_order_acquire)) std::this_thread::sleep_for(ms(1));
        seen = data;
    });
    prod.join(); cons.join();
    if (seen != 42) c.r->fail("selftest", "hand-over through a polled flag lost");
}

// 6: async (async + deferred) and futures
static void s_async(Ctx c) {
    std::vector<std::future<long> > fs;
    std::vector<long> in(size_t(c.threads), 0);
    for (int i = 0; i < c.threads; ++i) {
        in[size_t(i)] = i + 1;
        fs.push_back(std::async(i % 2 ? std::launch::deferred : std::launch::async,
                                [&in, i]() { return in[size_t(i)] * 10; }));
    }
    std::future<void> v = std::async([] {});
    long s = 0;
    for (auto& f : fs) s += f.get();
    v.wait();
    if (v.wait_for(ms(1)) != std::future_status::ready) c.r->fail("selftest", "future not ready after wait");
    if (s != 10L * c.threads * (c.threads + 1) / 2) c.r->fail("selftest", "async sum wrong");
}

// 7: promise / future hand-over of plain data, 8: packaged_task
static void s_promise(Ctx c) {
    std::promise<int> p;
    std::future<int> f = p.get_future();
    long data = 0;
    std::thread t([&] { data = 7; p.set_value(5); });
    int v = f.get();
    long d = data;
    t.join();
    std::promise<void> broken;
    std::future<void> bf = broken.get_future();
    { std::promise<void> gone(std::move(broken)); }
    bool threw = false;
    try { bf.get(); } catch (const std::future_error&) { threw = true; }
    if (v != 5 || d != 7 || !threw) c.r->fail("selftest", "promise hand-over wrong");
}
static void s_packaged(Ctx c) {
    std::packaged_task<int(int)> task([](int x) { return x * 2; });
    std::future<int> f = task.get_future();
    std::thread t(std::move(task), 21);
    int v = f.get();
    t.join();
    if (v != 42) c.r->fail("selftest", "packaged_task result wrong");
}

// 9: call_once
static void s_call_once(Ctx c) {
    std::once_flag once;
    long init = 0, calls = 0;
    bool bad = false;
    spawn(c.threads, [&](int) {
        std::call_once(once, [&] { ++calls; init = 99; });
        if (init != 99) bad = true;
    });
    if (bad || calls != 1) c.r->fail("selftest", "call_once wrong");
}

// 10: condition_variable_any over a recursive mutex, untimed waits
static void s_cv_any(Ctx c) {
    std::recursive_mutex m;
    std::condition_variable_any cv;
    int turn = 0;
    spawn(c.threads, [&](int i) {
        for (int k = 0; k < c.iters; ++k) {
            std::unique_lock<std::recursive_mutex> l(m);
            cv.wait(l, [&] { return turn % c.threads == i; });
            ++turn;
            cv.notify_all();
        }
    });
    if (turn != c.threads * c.iters) c.r->fail("selftest", "cv_any turn count wrong");
}

// 11: compare_exchange_weak in a retry loop / 22: a single attempt on a private atomic
static void s_cas_weak(Ctx c, bool single_attempt) {
    if (!single_attempt) {
        std::atomic<long> a(0);
        spawn(c.threads, [&](int) {
            for (int k = 0; k < c.iters; ++k) {
                long e = a.load(std::memory_order_relaxed);
                while (!a.compare_exchange_weak(e, e + 1, std::memory_order_acq_rel, std::memory_order_relaxed)) {}
            }
        });
        if (a.load() != long(c.threads) * c.iters) c.r->fail("selftest", "cas loop lost an update");
    } else {
        std::vector<std::atomic<long> > a(size_t(c.threads));
        for (auto& x : a) x.store(0);
        spawn(c.threads, [&](int i) { long e = 0; a[size_t(i)].compare_exchange_weak(e, 1); });
        for (auto& x : a) if (x.load() != 1) c.r->fail("selftest", "single compare_exchange_weak attempt failed spuriously");
    }
}

// 12: detached thread that reports back through a condition variable
static void s_detach(Ctx c) {
    struct Shared { std::mutex m; std::condition_variable cv; int done = 0; };
    auto sh = std::make_shared<Shared>();
    for (int i = 0; i < c.threads; ++i)
        std::thread([sh] { std::lock_guard<std::mutex> g(sh->m); ++sh->done; sh->cv.notify_all(); }).detach();
    std::unique_lock<std::mutex> l(sh->m);
    sh->cv.wait(l, [&] { return sh->done == c.threads; });
}

// 13: wait_until with a deadline, re-armed in a loop
static void s_wait_until(Ctx c) {
    std::mutex m;
    std::condition_variable cv;
    bool go = false;
    long data = 0, seen = 0;
    std::thread w([&] {
        std::unique_lock<std::mutex> l(m);
        while (!go) cv.wait_until(l, std::chrono::steady_clock::now() + ms(100));
        seen = data;
    });
    std::thread s([&] { std::lock_guard<std::mutex> g(m); data = 3; go = true; cv.notify_one(); });
    w.join(); s.join();
    if (seen != 3) c.r->fail("selftest", "wait_until hand-over wrong");
}

// 14: std::lock / scoped_lock over two mutexes taken in opposite order
static void s_std_lock(Ctx c) {
    std::mutex a, b;
    long x = 0, y = 0;
    spawn(c.threads, [&](int i) {
        for (int k = 0; k < c.iters; ++k) {
            if (i % 2) { std::scoped_lock<std::mutex, std::mutex> g(a, b); ++x; ++y; }
            else { std::scoped_lock<std::mutex, std::mutex> g(b, a); ++x; ++y; }
        }
    });
    if (x != y || x != long(c.threads) * c.iters) c.r->fail("selftest", "scoped_lock lost an update");
}

// 15: a harness-style "come to rest" with a polling waiter (wait_for loop that never becomes true
// until the controller acts after quiescence)
static void s_quiesce_poll(Ctx c) {
    std::mutex m;
    std::condition_variable cv;
    bool go = false;
    std::thread w([&] {
        std::unique_lock<std::mutex> l(m);
        while (!cv.wait_for(l, ms(250), [&] { return go; })) {}
    });
    sim::rt_await_quiescence();
    { std::lock_guard<std::mutex> g(m); go = true; }
    cv.notify_all();
    w.join();
}

// ---- wrong on purpose ---------------------------------------------------------------------------
// 20: lost wake-up (flag tested outside the mutex, no re-check)
static void b_lost_wakeup(Ctx) {
    std::mutex m;
    std::condition_variable cv;
    std::atomic<bool> flag(false);
    std::thread w([&] {
        if (!flag.load()) { std::unique_lock<std::mutex> l(m); cv.wait(l); }
    });
    std::thread s([&] { flag.store(true); cv.notify_one(); });
    w.join(); s.join();
}
// 21: plain data race
static void b_race(Ctx c) {
    long counter = 0;
    spawn(2, [&](int) { for (int k = 0; k < c.iters; ++k) ++counter; });
    (void)counter;
}
// 24: ABBA deadlock
static void b_abba(Ctx c) {
    std::mutex a, b;
    spawn(2, [&](int i) {
        for (int k = 0; k < c.iters; ++k) {
            if (i) { std::lock_guard<std::mutex> g(a); std::lock_guard<std::mutex> h(b); }
            else { std::lock_guard<std::mutex> g(b); std::lock_guard<std::mutex> h(a); }
        }
    });
}
// 25: polling for something nobody ever does
static void b_poll_forever(Ctx) {
    std::mutex m;
    std::condition_variable cv;
    bool go = false;
    std::thread w([&] {
        std::unique_lock<std::mutex> l(m);
        while (!cv.wait_for(l, ms(250), [&] { return go; })) {}
    });
    w.join();
}
// 26: fence-free relaxed flag hand-over of plain data
static void b_relaxed_handover(Ctx c) {
    std::atomic<bool> flag(false);
    long data = 0, seen = 0;
    std::thread prod([&] { data = 42; flag.store(true, std::memory_order_relaxed); });
    std::thread cons([&] {
        while (!flag.load(std::memory_order_relaxed)) std::this_thread::yield();
        seen = data;
    });
    prod.join(); cons.join();
    (void)seen; (void)c;
}

void run(int scenario, Ctx c) {
    switch (scenario) {
    case 0: s_recursive(c); break;
    case 1: s_shared(c); break;
    case 2: s_flag_lock(c, false); break;
    case 3: s_timed_mutex(c); break;
    case 4: s_queue_wait_for(c); break;
    case 5: s_sleep_poll(c); break;
    case 6: s_async(c); break;
    case 7: s_promise(c); break;
    case 8: s_packaged(c); break;
    case 9: s_call_once(c); break;
    case 10: s_cv_any(c); break;
    case 11: s_cas_weak(c, false); break;
    case 12: s_detach(c); break;
    case 13: s_wait_until(c); break;
    case 14: s_std_lock(c); break;
    case 15: s_quiesce_poll(c); break;
    case 20: b_lost_wakeup(c); break;
    case 21: b_race(c); break;
    case 22: s_cas_weak(c, true); break;
    case 23: s_flag_lock(c, true); break;
    case 24: b_abba(c); break;
    case 25: b_poll_forever(c); break;
    case 26: b_relaxed_handover(c); break;
    default: c.r->fail("machinery", "unknown selftest scenario");
    }
}

} // namespace selftest
} // namespace tlx

namespace {

void generate(sim::Rng& plan, sim::Workload& w, int) {
    const char* e = getenv("SELFTEST_SCENARIO");
    int sc = e ? atoi(e) : 0;
    w.cfg = {sc, int64_t(2 + plan.below(3)), int64_t(1 + plan.below(4))};
}

void execute(const sim::Workload& w, sim::Result& r) {
    tlx::selftest::Ctx c;
    c.threads = int(2 + sim::modn(sim::cfg_at(w, 1, 2) - 2, 3));
    c.iters = int(1 + sim::modn(sim::cfg_at(w, 2, 1) - 1, 4));
    c.r = &r;
    tlx::selftest::run(int(sim::cfg_at(w, 0)), c);
}

void tune(sim::Rng&, sim::SimCfg& c) { c.step_bound = 200000; }

const sim::HarnessDef def = {"T00", true, 30, generate, execute, tune};

} // namespace

int main(int argc, char** argv) { return sim::worker_main(argc, argv, def); }
