// harness/c12_cptr.cpp -- C12: CountingPtr destroys its object exactly once,
// when the last owner lets go; count == number of handles.
//
// Real code: tlx/counting_ptr.hpp.  Stub: std::atomic (scheduler shim).
// mode 0: single-thread handle histories (a one-task run of the simulator);
// mode 1: 2-3 threads copying/moving/dropping private handles to one object.
#include "../sim/sim.hpp"

#include <tlx/counting_ptr.hpp>

#include <memory>

namespace {

using sim::Workload;
using sim::Result;
using sim::Rng;

// ledger cells: [id] = 1 alive, 2 destroyed; CELL_ERR counts double destroys
enum { CELL_ERR = 0, CELL_NEXT_ID = 1, CELL_BASE = 16 };
enum { EV_DTOR = 1, EV_DROP = 2 };

struct Obj;
// set while a single-thread history runs: lets a dying object look at the handle variables
struct DyingHook { virtual void dying(const Obj*) = 0; virtual ~DyingHook() {} };
DyingHook* g_dying = nullptr;

struct Obj : public tlx::ReferenceCounter {
    int id;
    int payload;
    // a handle variable that lives inside a managed object (list node style: head = head->next)
    tlx::CountingPtr<Obj> next;
    Obj() : id(int(sim::rt_cell_add(CELL_NEXT_ID, 1))), payload(7000 + id) { sim::rt_cell_set(uint32_t(CELL_BASE + id), 1); }
    Obj(const Obj& o) : tlx::ReferenceCounter(o), id(int(sim::rt_cell_add(CELL_NEXT_ID, 1))), payload(o.payload), next(o.next) {
        sim::rt_cell_set(uint32_t(CELL_BASE + id), 1);
    }
    virtual ~Obj() {
        if (sim::rt_cell_get(uint32_t(CELL_BASE + id)) != 1) sim::rt_cell_add(CELL_ERR, 1);
        sim::rt_cell_set(uint32_t(CELL_BASE + id), 2);
        sim::event(EV_DTOR, id);
        // "never while a handle remains": seen from inside the destructor (a destructor may look at, or
        // copy, a handle variable -- the "current object" pattern), no handle variable points here any more
        if (g_dying) g_dying->dying(this);
        // "destroyed ... at the moment that number drops to zero": a successor this object is the only owner of
        // is gone as soon as the handle to it has let go, not some time later
        if (g_dying && next.get() && next->unique()) {
            const int cid = next->id;
            next.reset();
            if (sim::rt_cell_get(uint32_t(CELL_BASE + cid)) != 2) sim::rt_cell_add(CELL_ERR + 3, 1);
        }
        payload = -1;
    }
};
struct Derived : public Obj { int extra = 5; };
// a derived class whose counted base is NOT its first base: converting a handle adjusts the pointer
struct Pad { long pad[3] = {1, 2, 3}; virtual ~Pad() {} };
struct Derived2 : public Pad, public Obj { int extra2 = 6; };

using Ptr = tlx::CountingPtr<Obj>;
using DPtr = tlx::CountingPtr<Derived>;
using D2Ptr = tlx::CountingPtr<Derived2>;
using NPtr = tlx::CountingPtrNoDelete<Obj>;

enum {
    H_NEW = 0, H_NEWD, H_COPYCTOR, H_MOVECTOR, H_COPYASSIGN, H_MOVEASSIGN, H_CONVCOPYCTOR, H_CONVMOVECTOR,
    H_CONVCOPYASSIGN, H_CONVMOVEASSIGN, H_RESET, H_SWAP, H_UNIFY, H_DROP, H_ASSIGN_NULL, H_DRESET, H_DCOPY,
    H_LINK, H_ADVANCE, H_ADVANCE_MOVE, H_UNLINK, H_PUSH_FRONT, H_MAKE_SELFREG,
    H_NEWD2, H_D2_COPYASSIGN, H_D2_MOVEASSIGN, H_D2_COPYCTOR, H_D2_DROP, H_N
};
enum { T_COPY_BASE = 0, T_COPY_OWN, T_MOVE_OWN, T_RESET, T_DROP, T_COPYCTOR, T_READ, T_UNIFY, T_SWAP, T_N };

void generate(Rng& r, Workload& w, int tier) {
    int mode = r.chance(1, 2) ? 1 : 0;
    if (mode == 0) {
        w.cfg = {0, r.chance(1, 4) ? 1 : 0};
        int n = int(r.range(1, tier ? 100 : 30));
        // some histories work mostly on one or two handle variables (chains built and walked through one head)
        const uint64_t span = r.chance(1, 3) ? 2 : 5;
        const bool listy = r.chance(1, 3);
        static const int list_ops[] = {H_PUSH_FRONT, H_PUSH_FRONT, H_ADVANCE, H_ADVANCE_MOVE, H_LINK, H_COPYCTOR, H_DROP, H_UNLINK, H_NEW};
        for (int i = 0; i < n; ++i) {
            int64_t code = (listy && r.chance(2, 3)) ? list_ops[r.below(sizeof list_ops / sizeof list_ops[0])] : int64_t(r.below(H_N));
            w.ops.push_back({code, int64_t(r.below(span)), int64_t(r.below(span))});
        }
    } else {
        int nt = int(r.range(2, 3));
        // cfg[4]: the threads start without a handle of their own and first copy the controller's single
        // handle (count exactly 1 while several threads copy from it)
        int64_t start_empty = r.chance(1, 3) ? 1 : 0;
        w.cfg = {1, nt, start_empty ? 0 : (r.chance(1, 2) ? 1 : 0), r.range(0, 2), start_empty};
        int n = int(r.range(1, 6 * nt));
        if (start_empty) for (int t = 0; t < nt; ++t) w.ops.push_back({int64_t(t), T_COPY_BASE, 0, 0});
        for (int i = 0; i < n; ++i)
            w.ops.push_back({int64_t(r.below(uint64_t(nt))), int64_t(r.below(T_N)), int64_t(r.below(3)), int64_t(r.below(3))});
    }
}

// ---- mode 0 -----------------------------------------------------------------
struct History : public DyingHook {
    static constexpr int NS = 5, ND = 2;
    std::string dying_msg;
    void dying(const Obj* o) override {
        auto note = [&](const char* what, int idx) {
            if (dying_msg.empty()) dying_msg = "object " + std::to_string(o->id) + " is being destroyed while " + what + std::to_string(idx) + " still points to it";
        };
        for (int i = 0; i < NS; ++i) if (s[i] && s[i]->get() == o) note("handle h", i);
        for (int k = 0; k < ND; ++k) if (d[k] && d[k]->get() == o) note("handle d", k);
        for (int k = 0; k < ND; ++k) if (d2[k] && static_cast<const Obj*>(d2[k]->get()) == o) note("handle e", k);
        int last_id = int(sim::rt_cell_get(CELL_NEXT_ID));
        for (int id = 1; id <= last_id && size_t(id) < alive_ptr.size(); ++id)
            if (alive_ptr[size_t(id)] && alive_ptr[size_t(id)] != o && sim::rt_cell_get(uint32_t(CELL_BASE + id)) == 1 &&
                alive_ptr[size_t(id)]->next.get() == o)
                note("the next-handle of object ", id);
    }
    ~History() { g_dying = nullptr; }
    std::unique_ptr<Ptr> s[NS];
    std::unique_ptr<DPtr> d[ND];
    std::unique_ptr<D2Ptr> d2[ND];
    int created = 0;
    Result& res;
    explicit History(Result& r) : res(r) { g_dying = this; }

    Ptr& slot(int i) { if (!s[i]) s[i] = std::make_unique<Ptr>(); return *s[i]; }
    DPtr& dslot(int k) { if (!d[k]) d[k] = std::make_unique<DPtr>(); return *d[k]; }
    D2Ptr& d2slot(int k) { if (!d2[k]) d2[k] = std::make_unique<D2Ptr>(); return *d2[k]; }

    void check(const std::string& after) {
        int last_id = int(sim::rt_cell_get(CELL_NEXT_ID));
        if (sim::rt_cell_get(CELL_ERR) != 0) { res.fail("cptr_double_destroy", "object destroyed twice after " + after); return; }
        if (!dying_msg.empty()) { res.fail("cptr_destroyed_while_owned", dying_msg + " (during " + after + ")"); return; }
        if (sim::rt_cell_get(CELL_ERR + 3) != 0) { res.fail("cptr_not_destroyed", "an object was still alive after its last handle (inside a dying object) had let go, during " + after); return; }
        std::vector<int> cnt(size_t(last_id) + 1, 0);
        auto see = [&](const Obj* p, size_t use, bool uniq, const char* what, int idx) {
            if (!p) return;
            // the handle points somewhere: it must be an object that is alive
            int id = -1;
            for (int k = 1; k <= last_id; ++k) if (alive_ptr[size_t(k)] == p && sim::rt_cell_get(uint32_t(CELL_BASE + k)) == 1) id = k;
            if (id < 0) {
                res.fail("cptr_destroyed_while_owned", std::string(what) + std::to_string(idx) + " points to a destroyed object after " + after);
                return;
            }
            cnt[size_t(id)]++;
            uses[size_t(id)] = use; uniqs[size_t(id)] = uniq;
        };
        uses.assign(size_t(last_id) + 1, 0); uniqs.assign(size_t(last_id) + 1, false);
        // first pass: find raw pointers only (use_count is read after liveness is established)
        for (int i = 0; i < NS; ++i) if (s[i] && s[i]->get()) see(s[i]->get(), 0, false, "h", i);
        for (int k = 0; k < ND; ++k) if (d[k] && d[k]->get()) see(d[k]->get(), 0, false, "d", k);
        for (int k = 0; k < ND; ++k) if (d2[k] && d2[k]->get()) see(static_cast<const Obj*>(d2[k]->get()), 0, false, "e", k);
        // handles that live inside objects which are alive (by the ledger) are handles like any other
        for (int id = 1; id <= last_id; ++id)
            if (size_t(id) < alive_ptr.size() && alive_ptr[size_t(id)] && sim::rt_cell_get(uint32_t(CELL_BASE + id)) == 1 &&
                alive_ptr[size_t(id)]->next.get())
                see(alive_ptr[size_t(id)]->next.get(), 0, false, "next-handle of object ", id);
        if (!res.ok) return;
        for (int i = 0; i < NS; ++i) if (s[i] && s[i]->get()) check_count(*s[i], cnt, after);
        for (int k = 0; k < ND; ++k) if (d[k] && d[k]->get()) check_count(*d[k], cnt, after);
        for (int k = 0; k < ND; ++k) if (d2[k] && d2[k]->get()) check_count(*d2[k], cnt, after);
        for (int id = 1; id <= last_id; ++id)
            if (size_t(id) < alive_ptr.size() && alive_ptr[size_t(id)] && sim::rt_cell_get(uint32_t(CELL_BASE + id)) == 1 &&
                alive_ptr[size_t(id)]->next.get())
                check_count(alive_ptr[size_t(id)]->next, cnt, after);
        for (int id = 1; id <= last_id; ++id) {
            bool alive = sim::rt_cell_get(uint32_t(CELL_BASE + id)) == 1;
            if (alive && cnt[size_t(id)] == 0)
                res.fail("cptr_not_destroyed", "object " + std::to_string(id) + " has no owner left but was not destroyed after " + after);
        }
    }
    template <class P>
    void check_count(const P& p, const std::vector<int>& cnt, const std::string& after) {
        int id = p->id;
        if (int(p.use_count()) != cnt[size_t(id)])
            res.fail("cptr_count", "use_count()=" + std::to_string(p.use_count()) + " but " + std::to_string(cnt[size_t(id)]) +
                                       " handles point to object " + std::to_string(id) + " after " + after);
        if (p.unique() != (cnt[size_t(id)] == 1))
            res.fail("cptr_count", "unique() wrong for object " + std::to_string(id) + " after " + after);
        if (p->payload < 7000) res.fail("cptr_destroyed_while_owned", "payload of an owned object was destroyed after " + after);
    }
    std::vector<const Obj*> alive_ptr{nullptr};
    std::vector<size_t> uses; std::vector<bool> uniqs;
    Obj* mk() { Obj* o = new Obj; reg(o); return o; }
    // would a next-handle from `from` to `to` close a cycle (which reference counting cannot free)?
    static bool reaches(const Obj* to, const Obj* from) {
        for (const Obj* p = to; p; p = p->next.get()) if (p == from) return true;
        return false;
    }
    void reg(const Obj* o) { if (alive_ptr.size() <= size_t(o->id)) alive_ptr.resize(size_t(o->id) + 1, nullptr); alive_ptr[size_t(o->id)] = o; }
};

// an object whose constructor hands out a handle to itself (self-registration; the header advertises that no
// enable_shared_from_this kludge is needed), created through tlx::make_counting
struct SelfReg : public Obj {
    SelfReg(History* h, int slot) { h->s[slot] = nullptr; h->s[slot] = std::make_unique<Ptr>(this); }
};

void run_history(const Workload& w, Result& res) {
    History h(res);
    static const char* names[] = {"new", "new_derived", "copy_ctor", "move_ctor", "copy_assign", "move_assign", "conv_copy_ctor",
                                  "conv_move_ctor", "conv_copy_assign", "conv_move_assign", "reset", "swap", "unify", "drop",
                                  "assign_null", "dreset", "dcopy", "link", "advance", "advance_move", "unlink", "push_front", "make_counting_selfreg",
                                  "new_derived2", "conv2_copy_assign", "conv2_move_assign", "conv2_copy_ctor", "drop_derived2"};
    int step = 0;
    for (auto& op : w.ops) {
        if (op.empty()) continue;
        int code = int(sim::modn(op[0], H_N));
        int i = int(sim::modn(op.size() > 1 ? op[1] : 0, History::NS));
        int j = int(sim::modn(op.size() > 2 ? op[2] : 0, History::NS));
        int k = j % History::ND;
        const Obj* expect = nullptr; bool has_expect = false;
        switch (code) {
        case H_NEW: h.s[i] = nullptr; h.s[i] = std::make_unique<Ptr>(h.mk()); break;
        case H_NEWD: { Derived* dd = new Derived; h.reg(dd); h.d[k] = nullptr; h.d[k] = std::make_unique<DPtr>(dd); break; }
        case H_COPYCTOR: { expect = h.slot(j).get(); has_expect = true;
            auto t = std::make_unique<Ptr>(h.slot(j)); h.s[i] = std::move(t); break; }
        case H_MOVECTOR: { if (i == j) break; expect = h.slot(j).get(); has_expect = true;
            auto t = std::make_unique<Ptr>(std::move(h.slot(j))); h.s[i] = std::move(t); break; }
        case H_COPYASSIGN: expect = h.slot(j).get(); has_expect = true; h.slot(i) = h.slot(j); break;
        case H_MOVEASSIGN:
            // self-move leaves the handle "valid but unspecified": no identity expectation then
            expect = h.slot(j).get(); has_expect = (i != j);
            h.slot(i) = std::move(h.slot(j));
            break;
        case H_CONVCOPYCTOR: { expect = h.dslot(k).get(); has_expect = true;
            auto t = std::make_unique<Ptr>(h.dslot(k)); h.s[i] = std::move(t); break; }
        case H_CONVMOVECTOR: { expect = h.dslot(k).get(); has_expect = true;
            auto t = std::make_unique<Ptr>(std::move(h.dslot(k))); h.s[i] = std::move(t); break; }
        case H_CONVCOPYASSIGN: expect = h.dslot(k).get(); has_expect = true; h.slot(i) = h.dslot(k); break;
        case H_CONVMOVEASSIGN: expect = h.dslot(k).get(); has_expect = true; h.slot(i) = std::move(h.dslot(k)); break;
        case H_RESET: h.slot(i).reset(); expect = nullptr; has_expect = true; break;
        case H_SWAP: { const Obj* a = h.slot(i).get(); const Obj* b = h.slot(j).get();
            h.slot(i).swap(h.slot(j));
            if (h.slot(i).get() != b || h.slot(j).get() != a) res.probe("beyond_c12.swap_did_not_exchange");
            break; }
        case H_UNIFY: {
            Ptr& p = h.slot(i);
            bool was_shared = p.get() && !p.unique();
            int pay = p.get() ? p->payload : 0;
            int before_id = int(sim::rt_cell_get(CELL_NEXT_ID));
            p.unify();
            if (was_shared) {
                // (what unify() must produce is not in the statement; the count / destruction oracle judges the result)
                if (int(sim::rt_cell_get(CELL_NEXT_ID)) != before_id + 1) res.probe("beyond_c12.unify_did_not_copy");
                else h.reg(p.get());
                if (p.get() && (!p.unique() || p->payload != pay)) res.probe("beyond_c12.unify_result_not_a_unique_copy");
            }
            break; }
        case H_DROP: h.s[i] = nullptr; break;
        case H_ASSIGN_NULL: h.slot(i) = Ptr(nullptr); expect = nullptr; has_expect = true; break;
        case H_DRESET: h.dslot(k).reset(); break;
        case H_DCOPY: h.dslot(k) = h.dslot(1 - k); break;
        case H_LINK:
            // object(i).next = handle j (copy assignment into a handle inside an object); never a cycle
            if (h.slot(i).get() && !History::reaches(h.slot(j).get(), h.slot(i).get())) {
                h.slot(i)->next = h.slot(j);
                res.probe("inner_handle_linked");
            }
            break;
        case H_ADVANCE:
            // head = head->next: the source handle lives inside the object the target may be the last owner of
            if (h.slot(i).get()) {
                expect = h.slot(i)->next.get(); has_expect = true;
                if (expect && h.slot(i).unique() && expect->unique()) res.probe("advance_from_sole_owner_to_solely_owned");
                h.slot(i) = h.slot(i)->next;
            }
            break;
        case H_ADVANCE_MOVE:
            if (h.slot(i).get()) {
                expect = h.slot(i)->next.get(); has_expect = true;
                h.slot(i) = std::move(h.slot(i)->next);
            }
            break;
        case H_UNLINK: if (h.slot(i).get()) h.slot(i)->next.reset(); break;
        case H_NEWD2: { Derived2* dd = new Derived2; h.reg(static_cast<Obj*>(dd)); h.d2[k] = nullptr; h.d2[k] = std::make_unique<D2Ptr>(dd); break; }
        case H_D2_COPYASSIGN: expect = h.d2slot(k).get(); has_expect = true; h.slot(i) = h.d2slot(k); break;
        case H_D2_MOVEASSIGN: expect = h.d2slot(k).get(); has_expect = true; h.slot(i) = std::move(h.d2slot(k)); break;
        case H_D2_COPYCTOR: { expect = h.d2slot(k).get(); has_expect = true;
            auto t = std::make_unique<Ptr>(h.d2slot(k)); h.s[i] = std::move(t); break; }
        case H_D2_DROP: h.d2[k] = nullptr; break;
        case H_MAKE_SELFREG: {
            // slot j is filled by the object's own constructor, slot i by make_counting's result
            tlx::CountingPtr<SelfReg> p = tlx::make_counting<SelfReg>(&h, j);
            h.reg(p.get());
            h.s[i] = nullptr; h.s[i] = std::make_unique<Ptr>(p);
            break; }
        case H_PUSH_FRONT: {
            // list style: a new node takes over the handle's object as its successor and becomes the head
            Obj* n = h.mk();
            n->next = h.slot(i);
            h.slot(i) = Ptr(n);
            break; }
        }
        // which object the target handle ends up with is not part of the statement (it fixes counts and
        // destruction): counted, not judged
        if (has_expect && h.s[i] && h.s[i]->get() != expect) res.probe("beyond_c12.target_handle_not_on_source_object");
        h.check(std::string(names[code]) + "(" + std::to_string(i) + "," + std::to_string(j) + ") at step " + std::to_string(step));
        res.probe(names[code]);
        ++step;
        if (!res.ok) break;
    }
    // scope exit of everything: every object must be destroyed exactly once
    for (auto& p : h.s) p = nullptr;
    for (auto& p : h.d) p = nullptr;
    for (auto& p : h.d2) p = nullptr;
    int last_id = int(sim::rt_cell_get(CELL_NEXT_ID));
    for (int id = 1; id <= last_id; ++id)
        if (sim::rt_cell_get(uint32_t(CELL_BASE + id)) != 2)
            res.fail("cptr_not_destroyed", "object " + std::to_string(id) + " still alive after all handles were dropped");
    if (sim::rt_cell_get(CELL_ERR) != 0) res.fail("cptr_double_destroy", "object destroyed twice");

    if (sim::modn(sim::cfg_at(w, 1), 2) == 1) {
        // no-op deleter variant: counts still exact, object never destroyed by the handle
        Obj stack_obj;
        {
            NPtr a(&stack_obj);
            NPtr b = a;
            NPtr c(std::move(b));
            if (a.use_count() != 2) res.fail("cptr_count", "NoDelete: use_count after copy+move is " + std::to_string(a.use_count()));
            c.reset();
            if (!a.unique()) res.fail("cptr_count", "NoDelete: not unique after reset of the copy");
            // the last owner lets go through reset() (not through its destructor): the handle's own deleter decides
            a.reset();
            if (sim::rt_cell_get(uint32_t(CELL_BASE + stack_obj.id)) != 1) res.fail("cptr_double_destroy", "NoDelete: reset() of the last handle destroyed the object");
            else if (stack_obj.reference_count() != 0) res.fail("cptr_count", "NoDelete: count not zero after reset() of the last handle");
            NPtr again(&stack_obj);   // and the object can be handed out again
            if (!again.unique()) res.fail("cptr_count", "NoDelete: not unique when handed out again");
        }
        if (sim::rt_cell_get(uint32_t(CELL_BASE + stack_obj.id)) != 1) res.fail("cptr_double_destroy", "NoDelete deleter destroyed the object");
        if (stack_obj.reference_count() != 0) res.fail("cptr_count", "NoDelete: count not back to zero");
        res.probe("nodelete_variant");
    }
    res.probe("history_run");
}

// ---- mode 1 -----------------------------------------------------------------
void run_concurrent(const Workload& w, Result& res) {
    const int nt = int(2 + sim::modn(sim::cfg_at(w, 1) - 2, 2));
    const bool start_empty = sim::modn(sim::cfg_at(w, 4), 2) == 1;
    const bool drop_base_early = !start_empty && sim::modn(sim::cfg_at(w, 2), 2) == 1;
    const int survivors = int(sim::modn(sim::cfg_at(w, 3), 3));   // threads 0..survivors-1 hand one handle back
    struct TOp { int code, a, b; };
    std::vector<std::vector<TOp> > script(static_cast<size_t>(nt));
    for (auto& op : w.ops) {
        if (op.size() < 2) continue;
        script[size_t(sim::modn(op[0], nt))].push_back({int(sim::modn(op[1], T_N)), int(sim::modn(op.size() > 2 ? op[2] : 0, 3)),
                                                        int(sim::modn(op.size() > 3 ? op[3] : 0, 3))});
    }
    Obj* raw = new Obj;
    const int oid = raw->id;
    auto base = std::make_unique<Ptr>(raw);
    // every thread starts from its own handle, created by the controller
    std::vector<std::unique_ptr<Ptr> > start(static_cast<size_t>(nt));
    if (!start_empty) for (int t = 0; t < nt; ++t) start[size_t(t)] = std::make_unique<Ptr>(*base);
    else res.probe("threads_copy_the_single_handle");
    std::vector<std::unique_ptr<Ptr> > kept(static_cast<size_t>(nt));
    const Ptr* shared_base = base.get();
    std::vector<sim::Thread> th;
    for (int t = 0; t < nt; ++t) {
        th.emplace_back([&, t]() {
            std::unique_ptr<Ptr> p[3];
            p[0] = std::move(start[size_t(t)]);
            for (const TOp& o : script[size_t(t)]) {
                switch (o.code) {
                case T_COPY_BASE:
                    // copying from the shared const handle is only legal while the controller keeps it
                    if (!drop_base_early) { p[o.a] = nullptr; p[o.a] = std::make_unique<Ptr>(*shared_base); }
                    break;
                case T_COPY_OWN: if (p[o.b]) { if (!p[o.a]) p[o.a] = std::make_unique<Ptr>(); *p[o.a] = *p[o.b]; } break;
                case T_MOVE_OWN: if (p[o.b] && o.a != o.b) { if (!p[o.a]) p[o.a] = std::make_unique<Ptr>(); *p[o.a] = std::move(*p[o.b]); } break;
                case T_RESET: if (p[o.a]) p[o.a]->reset(); break;
                case T_DROP: p[o.a] = nullptr; break;
                case T_COPYCTOR: if (p[o.b]) { auto q = std::make_unique<Ptr>(*p[o.b]); p[o.a] = std::move(q); } break;
                case T_READ: if (p[o.a] && p[o.a]->get() && (*p[o.a])->payload < 7000) sim::rt_cell_add(CELL_ERR + 2, 1); break;
                // unify(): if the object is shared, continue on a private copy (a new ledgered object)
                case T_UNIFY: if (p[o.a] && p[o.a]->get()) p[o.a]->unify(); break;
                case T_SWAP: if (p[o.a] && p[o.b]) p[o.a]->swap(*p[o.b]); break;
                }
            }
            if (t < survivors) {
                for (auto& q : p) if (q && q->get()) { kept[size_t(t)] = std::move(q); break; }
            }
            sim::event(EV_DROP, t);
            // p[] destroyed here: thread-exit drop
        });
    }
    if (drop_base_early) { sim::event(EV_DROP, 100); base = nullptr; }
    for (auto& t : th) t.join();
    // survivors: the controller's handle (if kept) and the handles handed back; unify() may have
    // created private copies, so the oracle is per object: count == number of surviving handles
    // pointing to it, destroyed iff that number is zero
    std::vector<const Ptr*> surv;
    if (base) surv.push_back(base.get());
    for (auto& k : kept) if (k) surv.push_back(k.get());
    const int last_id = int(sim::rt_cell_get(CELL_NEXT_ID));
    std::vector<int> holders(size_t(last_id) + 1, 0);
    std::vector<const Ptr*> via(size_t(last_id) + 1, nullptr);
    for (const Ptr* h : surv) {
        if (!h->get()) continue;
        // liveness first (through the ledger, by address-independent id read only if some live object has this address)
        int id = h->get()->id;
        if (id < 1 || id > last_id || sim::rt_cell_get(uint32_t(CELL_BASE + id)) != 1) {
            res.fail("cptr_destroyed_while_owned", "a surviving handle points to a destroyed object");
            continue;
        }
        holders[size_t(id)]++; via[size_t(id)] = h;
    }
    bool any_worker_destroy = false;
    for (int id = oid; id <= last_id && res.ok; ++id) {
        bool alive = sim::rt_cell_get(uint32_t(CELL_BASE + id)) == 1;
        if (holders[size_t(id)] == 0) {
            if (alive) res.fail("cptr_not_destroyed", "object " + std::to_string(id) + ": no handle survives the threads but it was not destroyed");
            else any_worker_destroy = true;
        } else {
            const Ptr& any = *via[size_t(id)];
            if (int(any.use_count()) != holders[size_t(id)])
                res.fail("cptr_count", "object " + std::to_string(id) + ": after join use_count()=" + std::to_string(any.use_count()) +
                                           ", surviving handles=" + std::to_string(holders[size_t(id)]));
            if (any->payload != 7000 + oid) res.fail("cptr_destroyed_while_owned", "payload damaged");
        }
    }
    if (last_id > oid) res.probe("unify_made_a_copy");
    if (any_worker_destroy) res.probe("destroyed_by_worker_thread");
    base = nullptr;
    for (auto& k : kept) k = nullptr;
    for (int id = oid; id <= last_id && res.ok; ++id)
        if (sim::rt_cell_get(uint32_t(CELL_BASE + id)) != 2)
            res.fail("cptr_not_destroyed", "object " + std::to_string(id) + " alive after the last handle was dropped");
    if (!surv.empty()) res.probe("destroyed_by_controller");
    if (sim::rt_cell_get(CELL_ERR) != 0) res.fail("cptr_double_destroy", "object destroyed twice");
    if (sim::rt_cell_get(CELL_ERR + 2) != 0) res.fail("cptr_destroyed_while_owned", "a thread read a destroyed payload through its handle");
    res.probe("concurrent_run");
    if (drop_base_early) res.probe("base_dropped_concurrently");
}

void execute(const Workload& w, Result& res) {
    if (sim::modn(sim::cfg_at(w, 0), 2) == 0) run_history(w, res); else run_concurrent(w, res);
}

const sim::HarnessDef def = {"C12", true, 30, generate, execute, nullptr};

} // namespace

int main(int argc, char** argv) { return sim::worker_main(argc, argv, def); }
