// harness/c07_pmerge.cpp -- C07: parallel multiway merge equals the sequential
// (stable) merge for every thread count; one writer per output slot; no race.
//
// Real code: tlx/algorithm/parallel_multiway_merge.{hpp,cpp},
// multiway_merge_splitting.hpp, multisequence_partition.hpp, multiway_merge.hpp,
// merge_advance.hpp, container/loser_tree.hpp.
// Stub: std::thread (scheduler shim).  Reference model: a stable sort of
// (value, sequence, position) triples -- independent of tlx.
#include "../sim/sim.hpp"

#include <tlx/algorithm/parallel_multiway_merge.hpp>

#include <algorithm>
#include <atomic>
#include <type_traits>
#include <climits>
#include <deque>

namespace {

using sim::Workload;
using sim::Result;
using sim::Rng;

enum { C_ENTRY = 0, C_MWMA, C_MWMSA, C_THREADS, C_OVERSAMPLE, C_SIZEMODE, C_SIZEVAL, C_FORCE, C_MINK, C_MINN, C_ELEM, C_SEQKIND, C_PRIOR, C_PRIOR_THREADS, C_PRIOR_SIZEVAL, C_PRIOR_MWMSA };
enum { EV_ASSIGN = 1 };

struct E;
E* g_out_base = nullptr;
size_t g_out_cap = 0;

// lifetime bookkeeping of the element type (it is not trivially copyable: every object knows its own
// address from construction to destruction, so an assignment to, a copy from or a destruction of raw
// storage that never held an object shows)
std::atomic<uint64_t> g_e_bad_assign{0}, g_e_bad_source{0}, g_e_bad_destroy{0};
std::atomic<int64_t> g_e_live{0};

struct E {
    int key, seq, pos;
    const E* self;
    E() : key(-1), seq(-1), pos(-1), self(this) { g_e_live.fetch_add(1, std::memory_order_relaxed); }
    E(int k, int s, int p) : key(k), seq(s), pos(p), self(this) { g_e_live.fetch_add(1, std::memory_order_relaxed); }
    E(const E& o) : key(o.key), seq(o.seq), pos(o.pos), self(this) {
        if (o.self != &o) g_e_bad_source.fetch_add(1, std::memory_order_relaxed);
        g_e_live.fetch_add(1, std::memory_order_relaxed);
    }
    E& operator=(const E& o) {
        if (self != this) g_e_bad_assign.fetch_add(1, std::memory_order_relaxed);
        if (o.self != &o) g_e_bad_source.fetch_add(1, std::memory_order_relaxed);
        key = o.key; seq = o.seq; pos = o.pos;
        if (this >= g_out_base && this < g_out_base + g_out_cap) sim::event(EV_ASSIGN, this - g_out_base);
        return *this;
    }
    ~E() {
        if (self != this) g_e_bad_destroy.fetch_add(1, std::memory_order_relaxed);
        self = nullptr;
        g_e_live.fetch_sub(1, std::memory_order_relaxed);
    }
};
// the second element type: trivially copyable (fast paths that a library may take for such types --
// memcpy / memmove, skipped construction -- are only reachable with it); no hooks, hence no single-writer
// and no lifetime oracle in those runs
struct P {
    int key, seq, pos;
    P() : key(-1), seq(-1), pos(-1) {}
    P(int k, int s, int p) : key(k), seq(s), pos(p) {}
};
static_assert(std::is_trivially_copyable<P>::value, "P must be trivially copyable");
// the comparator has unsynchronised per-instance state (a call counter), as the by-value comparator interface
// allows: correct code hands every thread its own copies; one instance called from two threads is a data race
struct ByKey {
    mutable uint64_t calls = 0;
    template <class T> bool operator()(const T& a, const T& b) const { ++calls; return a.key < b.key; }
};
// both have an operator< on purpose, and it is the OPPOSITE of the comparator the merge is called with:
// code that falls back to operator< instead of the user's comparator shows at once
inline bool operator<(const E& a, const E& b) { return a.key > b.key; }
inline bool operator<(const P& a, const P& b) { return a.key > b.key; }
inline void set_out(E* base, size_t cap) { g_out_base = base; g_out_cap = cap; }
inline void set_out(P*, size_t) {}

void generate(Rng& r, Workload& w, int tier) {
    int64_t threads = r.chance(1, 12) ? 8 : r.range(0, 7);   // 0..7 -> 1..8 threads, 8 -> 32
    int64_t sizemode = r.below(10) < 5 ? 0 : (r.chance(1, 5) ? 1 : 2);
    w.cfg = {int64_t(r.below(6)), int64_t(r.below(4)), int64_t(r.below(2)), threads, r.range(0, 3), sizemode,
             int64_t(r.below(1000)), r.chance(4, 5) ? 1 : 0, r.range(0, 4), r.range(0, 20), r.chance(1, 3) ? 1 : 0,
             r.chance(1, 4) ? 1 : 0};   // last: the sequences live in std::deque (not contiguous) instead of std::vector
    // mostly a handful of sequences; one run in five has many (17..48) short ones:
    // sample sorting inside the splitters behaves differently beyond 16 sequences
    const bool many = r.chance(1, 5);
    int k = many ? int(r.range(17, 48)) : int(r.range(1, tier ? 10 : 6));
    const int many_len = int(r.range(1, 4));
    int universe = r.chance(1, 4) ? 1 : int(r.range(2, 6));
    int dominant = r.chance(1, 4) ? int(r.below(uint64_t(k))) : -1;
    for (int s = 0; s < k; ++s) {
        int len = r.chance(1, 5) ? 0 : int(r.range(0, tier ? 40 : 12));
        // many sequences: similar lengths (singletons, pairs, ...), so that most of them take part in the splitter sampling
        if (many) len = r.chance(4, 5) ? many_len : int(r.range(0, many_len));
        if (s == dominant) len = int(r.range(10, tier ? 40 : 24));
        std::vector<int64_t> seq;
        for (int i = 0; i < len; ++i) seq.push_back(int64_t(r.below(uint64_t(universe))));
        std::sort(seq.begin(), seq.end());
        w.ops.push_back(seq);
    }
    // one run in five is a history of two calls of the same entry point from one (fresh) thread: an earlier,
    // mostly partial and mostly sampling-split merge with its own thread count, then the merge under test --
    // whatever the first call leaves behind (in the thread, in the library) must not reach the second
    // (drawn last, so that the rest of the workload is the same as without this dimension)
    const int64_t prior = r.chance(1, 5) ? 1 : 0;
    w.cfg.push_back(prior);
    w.cfg.push_back(r.chance(1, 8) ? 8 : r.range(0, 7));
    w.cfg.push_back(int64_t(r.below(1000)));
    w.cfg.push_back(r.chance(3, 4) ? 1 : 0);
}

template <class Seq, class X> void seq_add(Seq& v, bool first, X&& x) { (void)first; v.emplace_back(std::forward<X>(x)); }
// a deque sequence starts with an emplace_front: its first element sits at the end of one block, the rest in the
// next one, so that every sequence of two or more elements crosses a block boundary
template <class T, class X> void seq_add(std::deque<T>& v, bool first, X&& x) {
    if (first) v.emplace_front(std::forward<X>(x)); else v.emplace_back(std::forward<X>(x));
}

template <class E, bool Hooks, class Seq>
void run(const Workload& w, Result& res) {
    const int entry = int(sim::modn(sim::cfg_at(w, C_ENTRY), 6));
    const auto mwma = tlx::MultiwayMergeAlgorithm(sim::modn(sim::cfg_at(w, C_MWMA), 4));
    const bool sampling = sim::modn(sim::cfg_at(w, C_MWMSA), 2) == 1;
    const auto mwmsa = sampling ? tlx::MWMSA_SAMPLING : tlx::MWMSA_EXACT;
    int64_t tv = sim::modn(sim::cfg_at(w, C_THREADS), 9);
    const size_t threads = size_t(tv >= 8 ? 32 : 1 + tv);   // (C07 is quantified over 1..32 threads)
    tlx::parallel_multiway_merge_oversampling = size_t(1 + sim::modn(sim::cfg_at(w, C_OVERSAMPLE), 4));
    const bool sentinels = entry >= 4;
    const bool stable = entry == 1 || entry == 3 || entry == 5;

    g_e_bad_assign = 0; g_e_bad_source = 0; g_e_bad_destroy = 0;
    const int64_t e_live0 = g_e_live.load();
    size_t nev0 = 0; sim::rt_events(&nev0);      // events of an earlier call in this run are not this call's
    std::vector<Seq> seqs;
    size_t total = 0;
    for (size_t s = 0; s < w.ops.size() && s < 64; ++s) {
        std::vector<int64_t> keys = w.ops[s];
        for (auto& k : keys) k = sim::modn(k, 1000);
        std::sort(keys.begin(), keys.end());
        Seq v;
        for (size_t i = 0; i < keys.size(); ++i) seq_add(v, i == 0, E(int(keys[i]), int(s), int(i)));
        total += v.size();
        if (sentinels) v.emplace_back(INT_MAX, int(s), -1);   // a real sentinel element behind the end
        v.shrink_to_fit();
        seqs.push_back(std::move(v));
    }
    const int sizemode = int(sim::modn(sim::cfg_at(w, C_SIZEMODE), 3));
    size_t size = sizemode == 0 ? total : sizemode == 1 ? 0 : size_t(sim::modn(sim::cfg_at(w, C_SIZEVAL), int64_t(total) + 1));

    tlx::parallel_multiway_merge_force_sequential = false;
    tlx::parallel_multiway_merge_force_parallel = sim::modn(sim::cfg_at(w, C_FORCE), 2) == 1;
    tlx::parallel_multiway_merge_minimal_k = size_t(sim::modn(sim::cfg_at(w, C_MINK), 5));
    tlx::parallel_multiway_merge_minimal_n = size_t(sim::modn(sim::cfg_at(w, C_MINN), 21));

    using It = typename Seq::iterator;
    std::vector<std::pair<It, It> > pairs;
    for (auto& v : seqs) pairs.emplace_back(v.begin(), v.end() - (sentinels ? 1 : 0));
    const size_t guard = 4;
    std::vector<E> out(size + guard);            // default elements: key -1 = untouched
    out.shrink_to_fit();
    set_out(out.data(), out.size());

    // reference: stable order by (key, sequence, position)
    std::vector<E> ref;
    for (auto& v : seqs) for (auto& e : v) if (e.pos >= 0) ref.push_back(e);
    std::stable_sort(ref.begin(), ref.end(), ByKey());
    std::vector<size_t> ref_adv(seqs.size(), 0);
    for (size_t i = 0; i < size; ++i) ref_adv[size_t(ref[i].seq)]++;

    typename std::vector<E>::iterator ret;   // (the output stays a vector)
    const std::ptrdiff_t dsize = std::ptrdiff_t(size);
    switch (entry) {
    case 0: ret = tlx::parallel_multiway_merge_base<false>(pairs.begin(), pairs.end(), out.begin(), dsize, ByKey(), mwma, mwmsa, threads); break;
    case 1: ret = tlx::parallel_multiway_merge_base<true>(pairs.begin(), pairs.end(), out.begin(), dsize, ByKey(), mwma, mwmsa, threads); break;
    case 2: ret = tlx::parallel_multiway_merge(pairs.begin(), pairs.end(), out.begin(), dsize, ByKey(), mwma, mwmsa, threads); break;
    case 3: ret = tlx::stable_parallel_multiway_merge(pairs.begin(), pairs.end(), out.begin(), dsize, ByKey(), mwma, mwmsa, threads); break;
    case 4: ret = tlx::parallel_multiway_merge_sentinels(pairs.begin(), pairs.end(), out.begin(), dsize, ByKey(), mwma, mwmsa, threads); break;
    default: ret = tlx::stable_parallel_multiway_merge_sentinels(pairs.begin(), pairs.end(), out.begin(), dsize, ByKey(), mwma, mwmsa, threads); break;
    }
    set_out(static_cast<E*>(nullptr), 0);
    // element lifetimes: the merge may create temporaries (samples, loser tree entries) but works on objects only
    if (Hooks) {
        int64_t mine = int64_t(out.size()) + int64_t(ref.size());   // the harness's own: output, reference, inputs
        for (auto& v : seqs) mine += int64_t(v.size());
        if (g_e_bad_assign.load()) res.fail("pmerge_lifetime", "an element was assigned to storage that holds no object (" + std::to_string(g_e_bad_assign.load()) + " times)");
        else if (g_e_bad_source.load()) res.fail("pmerge_lifetime", "an element was copied from storage that holds no object");
        else if (g_e_bad_destroy.load()) res.fail("pmerge_lifetime", "storage that holds no object was destroyed as an element");
        // (C07 does not say that the merge's temporaries are gone when it returns -- C06 says that of the sort:
        //  counted, not judged)
        else if (g_e_live.load() - e_live0 != mine) res.probe("beyond_c07.temporaries_alive_after_return");
    }

    static const char* en[] = {"base<unstable>", "base<stable>", "parallel_multiway_merge", "stable_parallel_multiway_merge",
                               "parallel_multiway_merge_sentinels", "stable_parallel_multiway_merge_sentinels"};
    std::string lens;
    for (auto& v : seqs) lens += std::to_string(v.size() - (sentinels ? 1 : 0)) + ",";
    std::string cfgs = std::string(en[entry]) + " " + (sampling ? "sampling" : "exact") + " mwma=" + std::to_string(int(mwma)) +
                       " threads=" + std::to_string(threads) + " size=" + std::to_string(size) + "/" + std::to_string(total) +
                       " lens=" + lens + " oversampling=" + std::to_string(tlx::parallel_multiway_merge_oversampling);

    if (ret != out.begin() + dsize)
        res.fail("pmerge_return", cfgs + ": returned iterator is not target+size (off by " + std::to_string((ret - out.begin()) - dsize) + ")");
    for (size_t i = 0; i < size; ++i) {
        if (out[i].key != ref[i].key) {
            res.fail("pmerge_values", cfgs + ": output[" + std::to_string(i) + "]=" + std::to_string(out[i].key) + " expected " + std::to_string(ref[i].key));
            break;
        }
        if (stable && (out[i].seq != ref[i].seq || out[i].pos != ref[i].pos)) {
            res.fail("pmerge_not_stable", cfgs + ": output[" + std::to_string(i) + "] comes from (seq " + std::to_string(out[i].seq) + ", pos " +
                                              std::to_string(out[i].pos) + "), the stable merge takes (seq " + std::to_string(ref[i].seq) + ", pos " +
                                              std::to_string(ref[i].pos) + ")");
            break;
        }
    }
    for (size_t i = size; i < out.size(); ++i)
        if (out[i].key != -1) { res.fail("pmerge_overrun", cfgs + ": wrote behind target+size"); break; }
    // input cursors: advanced past exactly the contributed elements
    std::vector<size_t> adv(seqs.size());
    size_t adv_sum = 0; bool adv_ok = true;
    for (size_t s = 0; s < seqs.size(); ++s) {
        std::ptrdiff_t a = pairs[s].first - seqs[s].begin();
        if (a < 0 || size_t(a) > seqs[s].size() - (sentinels ? 1 : 0)) { adv_ok = false; a = 0; }
        adv[s] = size_t(a); adv_sum += size_t(a);
    }
    if (!adv_ok) res.fail("pmerge_cursors", cfgs + ": an input begin was moved outside its sequence");
    else if (adv_sum != size) res.fail("pmerge_cursors", cfgs + ": inputs advanced by " + std::to_string(adv_sum) + " elements in total, output has " + std::to_string(size));
    else if (res.ok) {
        if (stable) { if (adv != ref_adv) res.fail("pmerge_cursors", cfgs + ": inputs not advanced past exactly the elements the stable merge takes"); }
        else {
            // the multiset of consumed prefixes must equal the output multiset
            std::vector<std::pair<int, int> > a, b;
            for (size_t s = 0; s < seqs.size(); ++s) for (size_t i = 0; i < adv[s]; ++i) a.emplace_back(int(s), int(i));
            for (size_t i = 0; i < size; ++i) b.emplace_back(out[i].seq, out[i].pos);
            std::sort(a.begin(), a.end()); std::sort(b.begin(), b.end());
            if (a != b) res.fail("pmerge_cursors", cfgs + ": inputs were not advanced past exactly the elements they contributed");
        }
    }
    res.probe(Hooks ? "element_with_hooks" : "element_trivially_copyable");
    if (!Hooks) {
        if (size < total) res.probe("size_less_than_total");
        if (size == 0) res.probe("size_zero");
        if (threads > total) res.probe("more_threads_than_elements");
        if (seqs.size() > 16) res.probe("more_than_16_sequences");
        res.probe(sampling ? "sampling" : "exact");
        if (stable) res.probe("stable");
        if (sentinels) res.probe("sentinels");
        return;
    }
    // single writer per output slot
    size_t nev; const sim::Event* ev = sim::rt_events(&nev);
    std::vector<int> writer(out.size(), -1); std::vector<int> writes(out.size(), 0);
    int distinct_writers = 0; std::vector<char> seen(256, 0);
    for (size_t i = nev0; i < nev; ++i) {
        if (ev[i].kind != EV_ASSIGN) continue;
        size_t slot = size_t(ev[i].a);
        writes[slot]++;
        if (writer[slot] >= 0 && writer[slot] != ev[i].tid)
            res.fail("pmerge_two_writers", cfgs + ": output slot " + std::to_string(slot) + " written by two threads");
        writer[slot] = ev[i].tid;
        if (ev[i].tid >= 0 && ev[i].tid < 256 && !seen[size_t(ev[i].tid)]) { seen[size_t(ev[i].tid)] = 1; distinct_writers++; }
    }
    for (size_t i = 0; i < size; ++i)
        if (writes[i] < 1 && res.ok) res.fail("pmerge_slot_unwritten", cfgs + ": output slot " + std::to_string(i) + " was never assigned");
    if (distinct_writers >= 2) res.probe("parallel_writers_2plus");
    if (size < total) res.probe("size_less_than_total");
    if (size == 0) res.probe("size_zero");
    if (threads > total) res.probe("more_threads_than_elements");
    if (seqs.size() > 16) res.probe("more_than_16_sequences");
    res.probe(sampling ? "sampling" : "exact");
    if (stable) res.probe("stable");
    if (sentinels) res.probe("sentinels");
}

template <class E, bool Hooks, class Seq>
void run_history(const Workload& w, Result& res) {
    if (sim::modn(sim::cfg_at(w, C_PRIOR), 2) != 1) { run<E, Hooks, Seq>(w, res); return; }
    res.probe("history_of_two_calls_on_a_fresh_thread");
    Workload w1 = w;
    w1.cfg.resize(C_PRIOR_MWMSA + 1, 0);
    w1.cfg[C_THREADS] = sim::cfg_at(w, C_PRIOR_THREADS);
    w1.cfg[C_MWMSA] = sim::cfg_at(w, C_PRIOR_MWMSA);
    w1.cfg[C_SIZEMODE] = 2;
    w1.cfg[C_SIZEVAL] = sim::cfg_at(w, C_PRIOR_SIZEVAL);
    w1.cfg[C_FORCE] = 1;
    sim::Thread t([&]() {
        run<E, Hooks, Seq>(w1, res);
        if (res.ok) run<E, Hooks, Seq>(w, res);
    });
    t.join();
}

void execute(const Workload& w, Result& res) {
    const bool deq = sim::modn(sim::cfg_at(w, C_SEQKIND), 2) == 1;
    if (deq) res.probe("sequences_in_deques");
    if (sim::modn(sim::cfg_at(w, C_ELEM), 2) == 1) { if (deq) run_history<P, false, std::deque<P> >(w, res); else run_history<P, false, std::vector<P> >(w, res); }
    else { if (deq) run_history<E, true, std::deque<E> >(w, res); else run_history<E, true, std::vector<E> >(w, res); }
}

const sim::HarnessDef def = {"C07", true, 60, generate, execute, nullptr};

} // namespace

int main(int argc, char** argv) { return sim::worker_main(argc, argv, def); }
