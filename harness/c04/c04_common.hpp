// harness/c04/c04_common.hpp -- shared between the C04 main TU and the TUs
// that instantiate pS5 for the (parameter set, string set, LCP) variants.
#ifndef VERIF_C04_COMMON_HPP
#define VERIF_C04_COMMON_HPP

#include <cstdint>
#include <string>
#include <vector>

namespace c04 {

// string set representations
enum SetKind { SK_UCHAR = 0, SK_CCHAR = 1, SK_STDSTRING = 2, SK_UPTR = 3, SK_SUFFIX = 4, SK_N };
// parameter sets: 0 = PS5ParametersDefault through the public front ends,
// 1.. = tiny thresholds / small splitter trees through parallel_sample_sort_params
constexpr int NPARAMS = 9;

struct Input {
    std::vector<std::string> strings;   // SK_SUFFIX: strings[0] is the text
};
struct Output {
    std::vector<std::string> strings;   // content at each output position
    std::vector<long> origin;           // original index of the object at each position, -1 if the
                                        // representation moves values (std::string) and identity is by content
    std::vector<std::uint32_t> lcp;     // empty when sorted without LCP
};

constexpr std::uint32_t LCP_POISON = 0xDEADBEEFu;

// returns false if the variant is not instantiated
bool run_variant(int param, int setkind, bool lcp, const Input& in, Output& out);
bool have_variant(int param, int setkind);

} // namespace c04

#endif
