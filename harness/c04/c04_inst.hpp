// harness/c04/c04_inst.hpp -- the instantiation machinery: builds the string
// representation, calls the real tlx sorter, extracts (content, origin, lcp).
#ifndef VERIF_C04_INST_HPP
#define VERIF_C04_INST_HPP

#include "c04_common.hpp"

#include <tlx/sort/strings/parallel_sample_sort.hpp>
#include <tlx/sort/strings_parallel.hpp>

#include <cstring>
#include <map>
#include <memory>

namespace c04 {

namespace ss = tlx::sort_strings_detail;

template <size_t SS, size_t INS, unsigned TB, int CLS, bool WS, bool REST, typename KEY = size_t>
struct Params : public ss::PS5ParametersDefault {
    static const bool enable_work_sharing = WS;
    static const bool enable_rest_size = REST;
    typedef KEY key_type;
    static const unsigned TreeBits = TB;
    using Classify = typename std::conditional<
        CLS == 0, ss::SSClassifyTreeCalcUnrollInterleave<key_type, TreeBits>,
        typename std::conditional<CLS == 1, ss::SSClassifyTreeUnrollInterleave<key_type, TreeBits>,
                                  ss::SSClassifyEqualUnroll<key_type, TreeBits> >::type>::type;
    static const size_t smallsort_threshold = SS;
    static const size_t inssort_threshold = INS;
};

// --- representations ---------------------------------------------------------

template <typename P, typename CharT, bool Lcp>
void sort_charptr(const Input& in, Output& out) {
    const size_t n = in.strings.size();
    // every string gets its own NUL-terminated storage: pointer identity = object identity
    size_t total = 0;
    for (auto& s : in.strings) total += s.size() + 1;
    std::vector<unsigned char> buf(total + 1);
    std::vector<CharT*> ptrs(n);
    std::map<const void*, long> idx;
    size_t off = 0;
    for (size_t i = 0; i < n; ++i) {
        memcpy(buf.data() + off, in.strings[i].data(), in.strings[i].size());
        buf[off + in.strings[i].size()] = 0;
        ptrs[i] = reinterpret_cast<CharT*>(buf.data() + off);
        idx[ptrs[i]] = long(i);
        off += in.strings[i].size() + 1;
    }
    ptrs.shrink_to_fit();
    std::vector<std::uint32_t> lcp(Lcp ? n : 0, LCP_POISON);
    lcp.shrink_to_fit();
    using Set = ss::GenericCharStringSet<CharT>;
    Set set(ptrs.data(), ptrs.data() + n);
    if (Lcp) ss::parallel_sample_sort_params<P>(ss::StringLcpPtr<Set, std::uint32_t>(set, lcp.data()), 0, 0);
    else ss::parallel_sample_sort_params<P>(ss::StringPtr<Set>(set), 0, 0);
    for (size_t i = 0; i < n; ++i) {
        auto it = idx.find(ptrs[i]);
        out.origin.push_back(it == idx.end() ? -2 : it->second);
        out.strings.push_back(it == idx.end() ? std::string("<foreign pointer>") : std::string(reinterpret_cast<const char*>(ptrs[i])));
    }
    out.lcp = lcp;
}

template <typename P, bool Lcp>
void sort_stdstring(const Input& in, Output& out) {
    const size_t n = in.strings.size();
    std::vector<std::string> v = in.strings;
    v.shrink_to_fit();
    std::vector<std::uint32_t> lcp(Lcp ? n : 0, LCP_POISON);
    ss::StdStringSet set(v.data(), v.data() + n);
    if (Lcp) ss::parallel_sample_sort_params<P>(ss::StringLcpPtr<ss::StdStringSet, std::uint32_t>(set, lcp.data()), 0, 0);
    else ss::parallel_sample_sort_params<P>(ss::StringPtr<ss::StdStringSet>(set), 0, 0);
    for (size_t i = 0; i < n; ++i) { out.strings.push_back(v[i]); out.origin.push_back(-1); }
    out.lcp = lcp;
}

template <typename P, bool Lcp>
void sort_uptr(const Input& in, Output& out) {
    const size_t n = in.strings.size();
    std::vector<std::unique_ptr<std::string> > v(n);
    std::map<const void*, long> idx;
    for (size_t i = 0; i < n; ++i) { v[i] = std::make_unique<std::string>(in.strings[i]); idx[v[i].get()] = long(i); }
    std::vector<std::uint32_t> lcp(Lcp ? n : 0, LCP_POISON);
    ss::UPtrStdStringSet set(v.data(), v.data() + n);
    if (Lcp) ss::parallel_sample_sort_params<P>(ss::StringLcpPtr<ss::UPtrStdStringSet, std::uint32_t>(set, lcp.data()), 0, 0);
    else ss::parallel_sample_sort_params<P>(ss::StringPtr<ss::UPtrStdStringSet>(set), 0, 0);
    for (size_t i = 0; i < n; ++i) {
        auto it = v[i] ? idx.find(v[i].get()) : idx.end();
        out.origin.push_back(it == idx.end() ? -2 : it->second);
        out.strings.push_back(v[i] ? *v[i] : std::string("<null unique_ptr>"));
    }
    out.lcp = lcp;
}

template <typename P, bool Lcp>
void sort_suffix(const Input& in, Output& out) {
    std::string text = in.strings.empty() ? std::string() : in.strings[0];
    std::vector<ss::StringSuffixSet::String> sa;
    ss::StringSuffixSet set = ss::StringSuffixSet::Initialize(text, sa);
    const size_t n = sa.size();
    std::vector<std::uint32_t> lcp(Lcp ? n : 0, LCP_POISON);
    if (Lcp) ss::parallel_sample_sort_params<P>(ss::StringLcpPtr<ss::StringSuffixSet, std::uint32_t>(set, lcp.data()), 0, 0);
    else ss::parallel_sample_sort_params<P>(ss::StringPtr<ss::StringSuffixSet>(set), 0, 0);
    for (size_t i = 0; i < n; ++i) {
        bool okidx = sa[i] <= text.size();
        out.origin.push_back(okidx ? long(sa[i]) : -2);
        out.strings.push_back(okidx ? text.substr(sa[i]) : std::string("<bad suffix index>"));
    }
    out.lcp = lcp;
}

template <typename P>
bool run_set(int setkind, bool lcp, const Input& in, Output& out) {
    switch (setkind) {
    case SK_UCHAR: if (lcp) sort_charptr<P, unsigned char, true>(in, out); else sort_charptr<P, unsigned char, false>(in, out); return true;
    default: return false;
    }
}

} // namespace c04

#endif
