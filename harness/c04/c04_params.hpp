#ifndef VERIF_C04_PARAMS_HPP
#define VERIF_C04_PARAMS_HPP
#include "c04_inst.hpp"
namespace c04 {
//            smallsort inssort TreeBits classify(0 calc,1 unroll,2 equal) work_sharing rest_size key
using P1 = Params<16, 4, 2, 0, true, false>;
using P2 = Params<64, 8, 3, 1, true, true>;
using P3 = Params<256, 32, 4, 2, false, false>;
using P4 = Params<16, 8, 3, 2, true, true>;
using P5 = Params<64, 4, 4, 0, false, true>;
using P6 = Params<32, 16, 2, 1, true, false>;
using P7 = Params<16, 4, 4, 0, true, true, std::uint32_t>;
using P8 = Params<24, 6, 1, 2, true, false>;
bool run_a(int param, int setkind, bool lcp, const Input& in, Output& out);
bool run_b(int param, int setkind, bool lcp, const Input& in, Output& out);
bool run_c(int param, int setkind, bool lcp, const Input& in, Output& out);
bool run_d(int param, int setkind, bool lcp, const Input& in, Output& out);
bool run_e(int param, int setkind, bool lcp, const Input& in, Output& out);
template <typename P>
bool uchar_both(bool lcp, const Input& in, Output& out) {
    if (lcp) sort_charptr<P, unsigned char, true>(in, out); else sort_charptr<P, unsigned char, false>(in, out);
    return true;
}
}
#endif
