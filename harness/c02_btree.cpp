// harness/c02_btree.cpp -- C02: the B+ tree keeps its balance/order invariants
// after every mutating operation and frees exactly what it allocates; every
// stored element is constructed and destroyed exactly once.
//
// Single task.  Real code: tlx/container/btree.hpp (through btree_set /
// btree_multiset / btree_map / btree_multimap).  Simulator-owned environment:
// the allocator (sim::Alloc as Allocator argument, rebound by the tree to its
// node types) with seeded recycling / poisoning / quarantine / canaries, the
// node ledger and the element-lifetime ledger.  A shadow std::multiset is kept
// only to generate meaningful operations (existing keys, valid iterators).
#include "../sim/sim.hpp"
#include "../sim/alloc.hpp"
#include "../sim/tracked.hpp"

#include <tlx/container/btree_map.hpp>
#include <tlx/container/btree_multimap.hpp>
#include <tlx/container/btree_multiset.hpp>
#include <tlx/container/btree_set.hpp>
#include <tlx/die.hpp>

#include <algorithm>
#include <deque>
#include <memory>
#include <set>

namespace {

using sim::Workload;
using sim::Result;
using sim::Rng;

enum { C_VARIANT = 0, C_QLEN, C_RECYCLE, C_UNIVERSE, C_ARENAS };
enum {
    B_INSERT = 0, B_INSERT_HINT, B_INSERT_RANGE, B_ERASE_KEY, B_ERASE_ONE, B_ERASE_ITER, B_CLEAR, B_COPY_CTOR, B_ASSIGN, B_SWAP,
    B_BULK_LOAD, B_DESTROY, B_CONSTRUCT, B_INSERT_ALIAS, B_ERASE_KEY_ALIAS, B_ERASE_ONE_ALIAS, B_MOVE_CTOR, B_MOVE_ASSIGN,
    B_N
};
const uint32_t RECYCLE[] = {0, 300, 700, 1000};
constexpr int NVARIANTS = 13;

template <int LS, int IS, size_t BIN, typename K, typename V>
struct Traits : tlx::btree_default_traits<K, V> {
    static const bool self_verify = false;
    static const bool debug = false;
    static const int leaf_slots = LS;
    static const int inner_slots = IS;
    static const size_t binsearch_threshold = BIN;
};
constexpr size_t LIN = 1u << 30, BINS = 0;   // linear search (huge threshold) / binary search (threshold 0)

struct TLess { bool operator()(const sim::Tracked& a, const sim::Tracked& b) const { return a.k() < b.k(); } };
// a comparator whose behaviour is run-time state: the trees are built with DirLess(true), a default-constructed
// one orders the other way round
struct DirLess {
    bool desc;
    explicit DirLess(bool d = false) : desc(d) {}
    bool operator()(int a, int b) const { return desc ? a > b : a < b; }
};
template <class K> K make_cmp(K*) { return K(); }
inline DirLess make_cmp(DirLess*) { return DirLess(true); }

// adaptors: how to build a value from (key, payload) and read its key
inline int ikey(int k) { return k; }
inline int ikey(const sim::Tracked& t) { return t.k(); }
template <class T> T mkv(int k);
template <> int mkv<int>(int k) { return k; }
template <> sim::Tracked mkv<sim::Tracked>(int k) { return sim::Tracked(k, k); }

template <class C, bool IsMap> struct Val;
template <class C> struct Val<C, false> {
    static typename C::value_type make(int k, int) { return mkv<typename C::key_type>(k); }
    static int key(const typename C::value_type& v) { return ikey(v); }
};
template <class C> struct Val<C, true> {
    static typename C::value_type make(int k, int payload) {
        return typename C::value_type(mkv<typename C::key_type>(k), mkv<typename C::data_type>(payload));
    }
    static int key(const typename C::value_type& v) { return ikey(v.first); }
};

template <class C, bool IsMap, bool Dup, bool Greater>
void run(const Workload& w, Result& res, bool tracked) {
    using V = Val<C, IsMap>;
    constexpr int NS = 3;
    std::unique_ptr<C> t[NS];
    std::multiset<int> shadow[NS];
    const int universe = int(4 + sim::modn(sim::cfg_at(w, C_UNIVERSE), 397));
    // each tree slot gets its own allocator instance (instances compare unequal) or all share one
    const bool arenas = sim::modn(sim::cfg_at(w, C_ARENAS), 2) == 1;
    auto fresh = [&](int slot) {
        return std::make_unique<C>(make_cmp(static_cast<typename C::key_compare*>(nullptr)), typename C::allocator_type(arenas ? slot + 1 : 0));
    };
    if (arenas) res.probe("distinct_allocator_instances");
    static const char* names[] = {"insert", "insert_hint", "insert_range", "erase_key", "erase_one", "erase_iter", "clear", "copy_ctor",
                                  "assign", "swap", "bulk_load", "destroy", "construct", "insert_alias", "erase_key_alias", "erase_one_alias", "move_ctor", "move_assign"};
    int step = 0, payload = 1;
    const int64_t live0 = sim::tracked_live();
    auto ins_shadow = [&](int s, int k) { if (Dup || shadow[s].count(k) == 0) shadow[s].insert(k); };
    for (auto& op : w.ops) {
        if (op.empty()) continue;
        int code = int(sim::modn(op[0], B_N));
        int i = int(sim::modn(op.size() > 1 ? op[1] : 0, NS)), j = int(sim::modn(op.size() > 2 ? op[2] : 0, NS));
        int k = int(sim::modn(op.size() > 3 ? op[3] : 0, universe));   // (op[3] may exceed the universe: big-tree mode)
        int arg = int(sim::modn(op.size() > 4 ? op[4] : 0, 64));
        if (!t[i] && code != B_CONSTRUCT && code != B_COPY_CTOR) { t[i] = fresh(i); shadow[i].clear(); }
        std::string at = std::string(names[code]) + "(" + std::to_string(i) + "," + std::to_string(j) + "," + std::to_string(k) + "," + std::to_string(arg) + ") at step " + std::to_string(step);
        try {
            switch (code) {
            case B_INSERT: t[i]->insert(V::make(k, payload++)); ins_shadow(i, k); break;
            case B_INSERT_HINT: {
                auto hint = t[i]->begin();
                size_t adv = t[i]->size() ? size_t(arg) % (t[i]->size() + 1) : 0;
                std::advance(hint, long(adv));
                t[i]->insert(hint, V::make(k, payload++)); ins_shadow(i, k);
                break;
            }
            case B_INSERT_RANGE: {
                std::vector<typename C::value_type> vals;
                for (int q = 0; q < 1 + arg % 9; ++q) { int kk = (k + q * 3) % universe; vals.push_back(V::make(kk, payload++)); }
                t[i]->insert(vals.begin(), vals.end());
                for (auto& v : vals) ins_shadow(i, V::key(v));
                break;
            }
            case B_ERASE_KEY: {
                size_t n = t[i]->erase(mkv<typename C::key_type>(k));
                if (n != shadow[i].count(k)) res.probe("beyond_c02.erase_count_differs_from_shadow");   // a return value: C01's business, not judged here
                shadow[i].erase(k);
                break;
            }
            case B_ERASE_ONE: {
                bool rv = t[i]->erase_one(mkv<typename C::key_type>(k));
                bool had = shadow[i].count(k) > 0;
                if (rv != had) res.probe("beyond_c02.erase_one_return_differs_from_shadow");
                if (had) shadow[i].erase(shadow[i].find(k));
                break;
            }
            case B_ERASE_ITER:
                if (!t[i]->empty()) {
                    // an iterator inside a duplicate run / at leaf borders: advance from begin
                    auto it = t[i]->begin();
                    std::advance(it, long(size_t(arg * 7 + k) % t[i]->size()));
                    int kk = V::key(*it);
                    t[i]->erase(it);
                    auto f = shadow[i].find(kk);
                    if (f == shadow[i].end()) res.probe("beyond_c02.iterator_key_not_in_shadow");
                    else shadow[i].erase(f);
                }
                break;
            case B_CLEAR: t[i]->clear(); shadow[i].clear(); break;
            case B_COPY_CTOR:
                if (t[j]) { auto c = std::make_unique<C>(*t[j]); auto sh = shadow[j]; t[i] = std::move(c); shadow[i] = sh; }
                else { t[i] = fresh(i); shadow[i].clear(); }
                break;
            case B_ASSIGN: if (t[j]) { *t[i] = *t[j]; auto sh = shadow[j]; shadow[i] = sh; } break;
            case B_SWAP: if (t[j]) { t[i]->swap(*t[j]); std::swap(shadow[i], shadow[j]); } break;
            case B_BULK_LOAD: {
                t[i]->clear(); shadow[i].clear();
                // sizes around 0, 1 and multiples of the node capacities
                static const int sizes[] = {0, 1, 3, 4, 5, 7, 8, 9, 15, 16, 17, 20, 24, 25, 31, 32, 33, 40, 48, 49, 63, 64, 65, 80, 100, 127, 128, 129,
                                            160, 200, 255, 256, 257, 300, 400};
                int n = sizes[size_t(arg) % (sizeof(sizes) / sizeof(sizes[0]))];
                std::vector<int> keys;
                for (int q = 0; q < n; ++q) keys.push_back(Dup ? (q * universe) / std::max(n, 1) : q);
                if (Greater) std::reverse(keys.begin(), keys.end());
                std::vector<typename C::value_type> vals;
                for (int kk : keys) vals.push_back(V::make(kk, payload++));
                // the source range: a vector, a deque whose first element sits in another block (not contiguous),
                // or reverse iterators over a reversed vector (backwards in memory)
                switch (k % 3) {
                case 1: {
                    std::deque<typename C::value_type> dq;
                    for (size_t q = 0; q < vals.size(); ++q) { if (q == 0) dq.push_front(vals[q]); else dq.push_back(vals[q]); }
                    t[i]->bulk_load(dq.begin(), dq.end());
                    res.probe("bulk_load_from_deque");
                    break; }
                case 2: {
                    std::vector<typename C::value_type> rv(vals.rbegin(), vals.rend());
                    t[i]->bulk_load(rv.rbegin(), rv.rend());
                    res.probe("bulk_load_from_reverse_iterators");
                    break; }
                default: t[i]->bulk_load(vals.begin(), vals.end()); break;
                }
                for (int kk : keys) shadow[i].insert(kk);
                res.probe("bulk_load_keys", uint64_t(n));
                break;
            }
            // the argument is a reference to an element (or key) stored in the same tree: s.insert(*it), s.erase(*it)
            case B_INSERT_ALIAS:
                if (!t[i]->empty()) {
                    auto it = t[i]->begin();
                    std::advance(it, long(size_t(arg * 7 + k) % t[i]->size()));
                    int kk = V::key(*it);
                    t[i]->insert(*it); ins_shadow(i, kk);
                }
                break;
            case B_ERASE_KEY_ALIAS:
                if (!t[i]->empty()) {
                    auto it = t[i]->begin();
                    std::advance(it, long(size_t(arg * 7 + k) % t[i]->size()));
                    int kk = V::key(*it);
                    size_t n = t[i]->erase(it.key());
                    if (n != shadow[i].count(kk)) res.probe("beyond_c02.erase_count_differs_from_shadow");
                    shadow[i].erase(kk);
                }
                break;
            case B_ERASE_ONE_ALIAS:
                if (!t[i]->empty()) {
                    auto it = t[i]->begin();
                    std::advance(it, long(size_t(arg * 7 + k) % t[i]->size()));
                    int kk = V::key(*it);
                    t[i]->erase_one(it.key());
                    auto f = shadow[i].find(kk);
                    if (f != shadow[i].end()) shadow[i].erase(f);
                }
                break;
            // construction / assignment from an rvalue (a copy where the container has no move operations); the
            // source stays a valid tree in an unspecified state: its shadow is re-read from the tree itself
            case B_MOVE_CTOR:
                if (t[j] && i != j) {
                    auto c = std::make_unique<C>(std::move(*t[j]));
                    t[i] = std::move(c); shadow[i] = shadow[j];
                    shadow[j].clear();
                    for (auto it = t[j]->begin(); it != t[j]->end(); ++it) shadow[j].insert(V::key(*it));
                }
                break;
            case B_MOVE_ASSIGN:
                if (t[j] && i != j) {
                    *t[i] = std::move(*t[j]); shadow[i] = shadow[j];
                    shadow[j].clear();
                    for (auto it = t[j]->begin(); it != t[j]->end(); ++it) shadow[j].insert(V::key(*it));
                }
                break;
            case B_DESTROY: t[i] = nullptr; shadow[i].clear(); break;
            case B_CONSTRUCT: t[i] = nullptr; t[i] = fresh(i); shadow[i].clear(); break;
            }
            // ---- the oracle: self-check of every live tree after every mutating call ----
            size_t nodes = 0, elems = 0;
            for (int s = 0; s < NS; ++s) {
                if (!t[s]) continue;
                t[s]->verify();
                // (the shadow only steers the generator; that size() matches the *structure* is part of verify().
                //  A difference from the shadow would be a content error, i.e. C01, which this check does not judge.)
                if (t[s]->size() != shadow[s].size()) res.probe("beyond_c02.size_differs_from_shadow");
                const auto& st = t[s]->get_stats();
                nodes += st.leaves + st.inner_nodes;
                elems += t[s]->size();
                if (st.inner_nodes > 0) res.probe("has_inner_nodes");
                if (st.leaves + st.inner_nodes >= 12) res.probe("three_levels_or_more_nodes");
                if (st.inner_nodes >= 8) res.probe("eight_or_more_inner_nodes");
            }
            if (sim::alloc_env().live_blocks() != nodes)
                res.fail("btree_nodes", std::to_string(sim::alloc_env().live_blocks()) + " nodes are allocated, the trees account for " + std::to_string(nodes) + ", " + at);
            if (tracked) {
                if (sim::tracked_err_destroy()) res.fail("btree_lifetime", "an element was destroyed twice or a non-element was destroyed, " + at);
                else if (sim::tracked_err_use()) res.fail("btree_lifetime", "a destroyed or never constructed element was accessed, " + at);
                else if (sim::tracked_live() - live0 < int64_t(elems)) res.fail("btree_lifetime", "fewer live elements than stored entries, " + at);
            }
        } catch (const std::exception& e) {
            res.fail("btree_verify", std::string("self-check failed: ") + e.what() + ", after " + at);
        }
        sim::rt_note(uint32_t(0x400 + code), uint32_t(t[i] ? t[i]->size() : 0));
        res.probe(names[code]);
        ++step;
        if (!res.ok) break;
    }
    for (auto& p : t) p = nullptr;
    if (res.ok && sim::alloc_env().live_blocks() != 0) res.fail("btree_nodes", std::to_string(sim::alloc_env().live_blocks()) + " nodes still allocated after all trees were destroyed");
    if (tracked && res.ok && sim::tracked_live() != live0) res.fail("btree_lifetime", std::to_string(sim::tracked_live() - live0) + " elements alive after all trees were destroyed");
    if (tracked && res.ok && sim::tracked_err_destroy()) res.fail("btree_lifetime", "an element was destroyed twice during destruction");
}

// the core class used directly (the facades above wrap it and declare their own copy operations)
struct KeyOfInt { static const int& get(const int& v) { return v; } };
struct KeyOfT { static const sim::Tracked& get(const sim::Tracked& v) { return v; } };

using PII = std::pair<int, int>;
using PIT = std::pair<int, sim::Tracked>;
using T = sim::Tracked;

void execute(const Workload& w, Result& res) {
    const int v = int(sim::modn(sim::cfg_at(w, C_VARIANT), NVARIANTS));
    sim::alloc_env().reset(size_t(sim::modn(sim::cfg_at(w, C_QLEN), 5)), RECYCLE[sim::modn(sim::cfg_at(w, C_RECYCLE), 4)]);
    tlx::set_die_with_exception(true);
    res.probe((std::string("variant_") + std::to_string(v)).c_str());
    switch (v) {
    case 0: run<tlx::btree_set<int, std::less<int>, Traits<4, 4, LIN, int, int>, sim::Alloc<int> >, false, false, false>(w, res, false); break;
    case 1: run<tlx::btree_multiset<int, std::less<int>, Traits<4, 7, BINS, int, int>, sim::Alloc<int> >, false, true, false>(w, res, false); break;
    case 2: run<tlx::btree_map<int, T, std::less<int>, Traits<5, 4, LIN, int, PIT>, sim::Alloc<PIT> >, true, false, false>(w, res, true); break;
    case 3: run<tlx::btree_multimap<int, int, std::greater<int>, Traits<6, 5, BINS, int, PII>, sim::Alloc<PII> >, true, true, true>(w, res, false); break;
    case 4: run<tlx::btree_set<T, TLess, Traits<8, 8, LIN, T, T>, sim::Alloc<T> >, false, false, false>(w, res, true); break;
    case 5: run<tlx::btree_multiset<int, std::greater<int>, Traits<16, 4, BINS, int, int>, sim::Alloc<int> >, false, true, true>(w, res, false); break;
    case 6: run<tlx::btree_multimap<int, T, std::less<int>, Traits<4, 4, BINS, int, PIT>, sim::Alloc<PIT> >, true, true, false>(w, res, true); break;
    case 7: run<tlx::btree_set<int, std::greater<int>, Traits<4, 5, BINS, int, int>, sim::Alloc<int> >, false, false, true>(w, res, false); break;
    case 8: run<tlx::btree_multiset<T, TLess, Traits<5, 7, LIN, T, T>, sim::Alloc<T> >, false, true, false>(w, res, true); break;
    case 9: run<tlx::btree_map<int, int, std::less<int>, Traits<7, 4, LIN, int, PII>, sim::Alloc<PII> >, true, false, false>(w, res, false); break;
    case 12: run<tlx::btree_multiset<int, DirLess, Traits<4, 5, LIN, int, int>, sim::Alloc<int> >, false, true, true>(w, res, false); break;
    case 10: run<tlx::BTree<int, int, KeyOfInt, std::less<int>, Traits<5, 5, BINS, int, int>, true, sim::Alloc<int> >, false, true, false>(w, res, false); break;
    default: run<tlx::BTree<T, T, KeyOfT, TLess, Traits<4, 6, LIN, T, T>, false, sim::Alloc<T> >, false, false, false>(w, res, true); break;
    }
    sim::alloc_env().finish();
    for (auto& e : sim::alloc_env().errors()) res.fail("alloc_ledger", e);
    if (sim::alloc_env().recycled()) res.probe("recycled_blocks", sim::alloc_env().recycled());
}

void generate(Rng& r, Workload& w, int tier) {
    int mode = int(r.below(4));   // 0 mixed, 1 insert heavy then erase heavy, 2 small, 3 big tree then long erase phase
    int64_t universe = mode == 3 ? int64_t(r.range(60, 396)) : int64_t(r.below(37));
    w.cfg = {int64_t(r.below(NVARIANTS)), int64_t(r.below(5)), int64_t(r.below(4)), universe, int64_t(r.below(2))};
    int n = int(r.range(1, tier ? 400 : 120));
    if (mode == 2) n = int(r.range(1, 20));
    if (mode == 3) {
        // a tree of several levels (bulk load or many inserts), then mostly erases of all three kinds:
        // the underflow / merge / shift branches high up in the tree need many removals to be reached
        n = int(r.range(60, tier ? 1200 : 260));
        if (r.chance(1, 2)) w.ops.push_back({B_BULK_LOAD, 0, 0, 0, int64_t(28 + r.below(7))});
        else for (int i = 0; i < int(r.range(40, 200)); ++i) w.ops.push_back({B_INSERT, 0, 0, int64_t(r.below(400)), 0});
        int erase_kind = int(r.below(4));   // 3: mixed
        for (int i = 0; i < n; ++i) {
            uint64_t k = r.below(100);
            int64_t code;
            if (k < 72) code = erase_kind == 3 ? B_ERASE_KEY + int64_t(r.below(3)) : B_ERASE_KEY + erase_kind;
            else if (k < 97) code = B_INSERT + int64_t(r.below(2));
            else code = r.chance(1, 2) ? B_COPY_CTOR : B_SWAP;
            // now and then the argument is a reference into the tree itself
            if (r.chance(1, 8)) {
                if (code == B_ERASE_KEY) code = B_ERASE_KEY_ALIAS;
                else if (code == B_ERASE_ONE) code = B_ERASE_ONE_ALIAS;
                else if (code == B_INSERT) code = B_INSERT_ALIAS;
            }
            int64_t slot = (code == B_COPY_CTOR || code == B_SWAP) ? int64_t(r.below(3)) : 0;
            w.ops.push_back({code, slot, int64_t(r.below(3)), int64_t(r.below(400)), int64_t(r.below(64))});
        }
        return;
    }
    for (int i = 0; i < n; ++i) {
        int64_t code;
        uint64_t k = r.below(100);
        bool grow = mode != 1 || i < n / 2;
        if (k < (grow ? 50u : 15u)) code = B_INSERT + int64_t(r.below(3));
        else if (k < (grow ? 75u : 85u)) code = B_ERASE_KEY + int64_t(r.below(3));
        else code = B_CLEAR + int64_t(r.below(B_N - B_CLEAR));
        if (code == B_CLEAR && !r.chance(1, 4)) code = B_ERASE_ITER;
        int64_t slot = r.chance(3, 4) ? 0 : int64_t(r.below(3));
        w.ops.push_back({code, slot, int64_t(r.below(3)), int64_t(r.below(41)), int64_t(r.below(64))});
    }
}

const sim::HarnessDef def = {"C02", true, 30, generate, execute, nullptr};

} // namespace

int main(int argc, char** argv) { return sim::worker_main(argc, argv, def); }
