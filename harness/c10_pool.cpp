// harness/c10_pool.cpp -- C10: ThreadPool runs each job exactly once;
// loop_until_empty means quiescence; waiting/terminate/destruction return.
//
// Real code: tlx/thread_pool.{hpp,cpp}, delegate.hpp, simple_vector.hpp.
// Stub: thread/mutex/condition_variable/atomic (the scheduler shims).
#include "../sim/sim.hpp"

#include <tlx/thread_pool.hpp>

#include <atomic>
#include <iostream>
#include <memory>
#include <stdexcept>

namespace {

using sim::Workload;
using sim::Result;
using sim::Rng;

// ops
enum { OP_ROOT = 0, OP_CHILD = 1, OP_ROUND = 2, OP_TERM_JOB = 3, OP_TERM_OUT = 4 };
// events
enum { EV_JOB_START = 1, EV_JOB_END, EV_ENQ_DONE, EV_WAIT_CALL, EV_WAIT_RET, EV_TERM_CALL, EV_TERM_RET, EV_CLOSURE_GONE };
// cfg indices
enum { C_POOL = 0, C_SCEN, C_WAITERS, C_DESTROY, C_OUTSIDE, C_N };

void generate(Rng& r, Workload& w, int tier) {
    // wide mode (rare, costly): one or two jobs on a pool of one or two workers enqueue hundreds to thousands
    // of children -- a backlog far beyond the pool size, at and just past powers of two ("all job graphs":
    // any bound on the queue that jobs themselves can hit shows here and nowhere else)
    if (r.chance(1, tier ? 60 : 120)) {
        static const int W[] = {129, 513, 1025, 1030, 2049, 2060, 4100};
        const int n = W[r.below(7)];
        const int64_t pool = int64_t(r.below(2));
        const int roots = pool == 1 && r.chance(1, 2) ? 2 : 1;
        w.cfg = {pool, 0, r.chance(1, 3) ? 1 : 0, 0, 0};
        for (int i = 0; i < roots; ++i) w.ops.push_back({OP_ROOT, 0, 0, 0, 0});
        for (int i = 0; i < n; ++i) w.ops.push_back({OP_CHILD, int64_t(i % roots), 0, 0, 0});
        return;
    }
    int64_t scen = r.chance(1, 4) ? 1 : 0;
    int64_t outside = r.chance(1, 3) ? r.range(1, 2) : 0;
    w.cfg = {r.range(0, tier ? 5 : 3), scen, r.chance(1, 3) ? 1 : 0, r.chance(1, 4) ? 1 : 0, outside};
    int maxjobs = tier ? 40 : 14;
    int njobs = int(r.range(0, maxjobs));
    int rounds = scen ? 1 : int(r.range(1, 3));
    const bool throwing_run = r.chance(1, 4);
    const bool nested_run = r.chance(1, 5);
    for (int rd = 0; rd < rounds; ++rd) {
        int k = rounds == 1 ? njobs : int(r.range(0, njobs / rounds + 1));
        for (int i = 0; i < k; ++i) {
            // in one run out of four some jobs end by throwing a std::exception (which the pool catches)
            const int64_t thr = (throwing_run && r.chance(1, 3)) ? 1 : 0;
            // in one run out of five some jobs own a pool of their own, fill it and wait for it (nested pools)
            const int64_t nest = (nested_run && r.chance(1, 3)) ? 1 : 0;
            if (i > 0 && r.chance(1, 2)) w.ops.push_back({OP_CHILD, int64_t(r.below(8)), r.chance(1, 4) ? 1 : 0, thr, nest});
            else w.ops.push_back({OP_ROOT, outside ? int64_t(r.below(uint64_t(outside + 1))) : 0, 0, thr, nest});
        }
        if (rd + 1 < rounds) w.ops.push_back({OP_ROUND});
    }
    if (scen) {
        if (r.chance(1, 2) && !w.ops.empty()) {
            // one job terminates the pool -- or two or three of them, possibly running at the same time
            int nterm = r.chance(1, 3) ? int(r.range(2, 3)) : 1;
            for (int t = 0; t < nterm; ++t) w.ops.push_back({OP_TERM_JOB, int64_t(r.below(8))});
        }
        else if (outside) w.ops.push_back({OP_TERM_OUT, r.range(1, outside)});
        // else: the controller terminates itself before waiting
    }
}

struct Job {
    int id;
    int round;
    int parent;       // -1: root
    int who;          // root: 0 controller, k>0 outside thread k
    bool terminates;  // calls terminate() at its end
    std::vector<int> children;
    std::vector<int> dtor_children;   // enqueued when the job's closure is destroyed (continuation token)
    bool throws = false;              // ends by throwing a std::exception (the pool catches and logs it)
    bool nested = false;              // creates an inner pool, enqueues jobs into it and waits for them
};

struct Ctx {
    std::vector<Job> jobs;
    tlx::ThreadPool* pool = nullptr;
    std::vector<int> plain_count;   // written by the job only, read after the wait
    std::vector<int> plain_result;
    std::vector<int> plain_closure_gone;   // written when the job's closure is destroyed
};

std::atomic<int> g_nested_bad{0};
void run_job(Ctx* cx, int j);
void enqueue_job(Ctx* cx, int j);

// Captured by value in every job closure: its destructor is user code that runs
// on the worker when the pool destroys the closure, i.e. still "within the job".
// It records an effect and enqueues the job's continuation jobs, the way a
// fork-join token or a commit-on-destruction object would.
struct Token {
    Ctx* cx; int j;
    Token(Ctx* c, int job) : cx(c), j(job) {}
    ~Token() {
        sim::event(EV_CLOSURE_GONE, j);
        cx->plain_closure_gone[size_t(j)] = 1;
        for (int c : cx->jobs[size_t(j)].dtor_children) enqueue_job(cx, c);
    }
};

void enqueue_job(Ctx* cx, int j) {
    {
        auto tok = std::make_shared<Token>(cx, j);
        cx->pool->enqueue([cx, j, tok]() { run_job(cx, j); });
    }   // the closure stored in the pool now holds the only reference
    sim::event(EV_ENQ_DONE, j);
}

void run_job(Ctx* cx, int j) {
    const Job& jb = cx->jobs[size_t(j)];
    sim::event(EV_JOB_START, j);
    sim::rt_cell_add(uint32_t(j), 1);
    sim::point();
    cx->plain_count[size_t(j)]++;
    for (int c : jb.children) enqueue_job(cx, c);
    sim::point();
    cx->plain_result[size_t(j)] = 1000 + j;
    if (jb.nested) {
        // C10 for a second pool whose waiter is a worker thread of the first one
        const size_t k = size_t(1 + j % 3);
        std::vector<int> eff(k, 0);
        tlx::ThreadPool inner(size_t(1 + j % 2));
        for (size_t q = 0; q < k; ++q) inner.enqueue([&eff, q]() { eff[q] = int(q) + 1; });
        inner.loop_until_empty();
        bool good = inner.done() == k;
        for (size_t q = 0; q < k; ++q) good = good && eff[q] == int(q) + 1;
        if (!good) g_nested_bad.fetch_add(1, std::memory_order_relaxed);
    }
    if (jb.terminates) {
        sim::event(EV_TERM_CALL, j);
        cx->pool->terminate();
        sim::event(EV_TERM_RET, j);
    }
    sim::event(EV_JOB_END, j);
    if (jb.throws) throw std::runtime_error("job ends with an exception");
}

void execute(const Workload& w, Result& res) {
    const int p = int(1 + sim::modn(sim::cfg_at(w, C_POOL), 6));
    const bool scen_term = sim::modn(sim::cfg_at(w, C_SCEN), 2) == 1;
    const int waiters = int(1 + sim::modn(sim::cfg_at(w, C_WAITERS), 2));
    const bool abrupt = sim::modn(sim::cfg_at(w, C_DESTROY), 2) == 1;
    const int outside = int(sim::modn(sim::cfg_at(w, C_OUTSIDE), 3));

    Ctx cx;
    int nested_jobs = 0;
    g_nested_bad = 0;
    bool any_dtor_child = false;
    int round = 0, nrounds = 1;
    int term_out = 0;                 // outside thread that terminates (terminate scenario)
    std::vector<int> round_first;     // index of first job of each round
    round_first.push_back(0);
    for (const auto& op : w.ops) {
        int64_t code = op.empty() ? -1 : sim::modn(op[0], 5);
        int64_t a = op.size() > 1 ? op[1] : 0;
        int first = round_first.back();
        int have = int(cx.jobs.size()) - first;
        if (code == OP_ROOT || (code == OP_CHILD && have == 0)) {
            Job j{int(cx.jobs.size()), round, -1, code == OP_ROOT ? int(sim::modn(a, outside + 1)) : 0, false, {}, {}};
            j.throws = op.size() > 3 && sim::modn(op[3], 2) == 1;
            j.nested = op.size() > 4 && sim::modn(op[4], 2) == 1 && ++nested_jobs <= 3;
            cx.jobs.push_back(j);
        } else if (code == OP_CHILD) {
            int par = first + int(sim::modn(a, have));
            Job j{int(cx.jobs.size()), round, par, 0, false, {}, {}};
            j.throws = op.size() > 3 && sim::modn(op[3], 2) == 1;
            j.nested = op.size() > 4 && sim::modn(op[4], 2) == 1 && ++nested_jobs <= 3;
            // continuation enqueued by the destructor of the parent's closure: only where every job is
            // guaranteed to complete before the pool goes away (no terminate, no abrupt destruction)
            const bool by_dtor = !scen_term && !abrupt && op.size() > 2 && sim::modn(op[2], 2) == 1;
            if (by_dtor) { cx.jobs[size_t(par)].dtor_children.push_back(j.id); any_dtor_child = true; }
            else cx.jobs[size_t(par)].children.push_back(j.id);
            cx.jobs.push_back(j);
        } else if (code == OP_ROUND && !scen_term) {
            round++; nrounds++;
            round_first.push_back(int(cx.jobs.size()));
        } else if (code == OP_TERM_JOB && scen_term && have > 0) {
            cx.jobs[size_t(first + int(sim::modn(a, have)))].terminates = true;
        } else if (code == OP_TERM_OUT && scen_term && outside > 0) {
            term_out = int(1 + sim::modn(a - 1, outside));
        }
    }
    const int nj = int(cx.jobs.size());
    if (nj > 60000) return;
    bool any_term_job = false;
    for (auto& j : cx.jobs) any_term_job |= j.terminates;
    const bool ctrl_terminates = scen_term && !any_term_job && term_out == 0;
    cx.plain_count.assign(size_t(nj), 0);
    cx.plain_result.assign(size_t(nj), 0);
    cx.plain_closure_gone.assign(size_t(nj), 0);
    if (any_dtor_child) res.probe("continuation_enqueued_by_closure_destructor");
    res.probe(scen_term ? "scenario_terminate" : "scenario_rounds");
    if (waiters == 2) res.probe("two_waiters");
    if (outside) res.probe("outside_enqueuers");
    if (abrupt) res.probe("abrupt_destroy");

    auto pool = std::make_unique<tlx::ThreadPool>(size_t(p));
    cx.pool = pool.get();
    size_t finished_expected = 0;     // jobs that must be complete (strict rounds)
    std::vector<uint64_t> wait_call_ev, wait_ret_ev;

    for (int rd = 0; rd < nrounds; ++rd) {
        int lo = round_first[size_t(rd)];
        int hi = rd + 1 < nrounds ? round_first[size_t(rd + 1)] : nj;
        bool racy = false;
        std::vector<sim::Thread> outs;
        for (int k = 1; k <= outside; ++k) {
            bool has = (scen_term && term_out == k);
            for (int j = lo; j < hi; ++j) has |= (cx.jobs[size_t(j)].parent < 0 && cx.jobs[size_t(j)].who == k);
            if (!has) continue;
            racy = true;
            outs.emplace_back([&cx, lo, hi, k, scen_term, term_out]() {
                for (int j = lo; j < hi; ++j)
                    if (cx.jobs[size_t(j)].parent < 0 && cx.jobs[size_t(j)].who == k) enqueue_job(&cx, j);
                if (scen_term && term_out == k) {
                    sim::event(EV_TERM_CALL, -k);
                    cx.pool->terminate();
                    sim::event(EV_TERM_RET, -k);
                }
            });
        }
        for (int j = lo; j < hi; ++j)
            if (cx.jobs[size_t(j)].parent < 0 && cx.jobs[size_t(j)].who == 0) enqueue_job(&cx, j);
        if (ctrl_terminates) {
            sim::event(EV_TERM_CALL, 0);
            cx.pool->terminate();
            sim::event(EV_TERM_RET, 0);
        }
        if (abrupt && rd + 1 == nrounds && !scen_term) {
            // destroy the pool with whatever is queued or running
            for (auto& t : outs) t.join();
            break;
        }
        auto waiter = [&cx, scen_term](int wid, int is_racy) {
            sim::event(EV_WAIT_CALL, wid, is_racy);
            if (scen_term) cx.pool->loop_until_terminate(); else cx.pool->loop_until_empty();
            sim::event(EV_WAIT_RET, wid, is_racy);
        };
        std::vector<sim::Thread> ws;
        if (waiters == 2) ws.emplace_back(waiter, 1, int(racy));
        waiter(0, int(racy));
        for (auto& t : ws) t.join();
        for (auto& t : outs) t.join();
        if (racy && !scen_term) {
            // outside enqueuers have returned: one more wait is a strict one
            waiter(2, 0);
        }
        if (!scen_term) {
            // strict quiescence: nobody can enqueue any more in this round
            finished_expected = size_t(hi);
            size_t d = pool->done();
            if (d != finished_expected)
                res.fail("done_count", "done()=" + std::to_string(d) + " after loop_until_empty, jobs run=" +
                                           std::to_string(finished_expected));
            for (int j = 0; j < hi; ++j) {
                if (cx.plain_closure_gone[size_t(j)] != 1)
                    res.fail("quiescence", "job " + std::to_string(j) + ": the pool still holds (or is still destroying) the job's closure when "
                                               "loop_until_empty returned (round " + std::to_string(rd) + ")");
                if (cx.plain_count[size_t(j)] != 1 || cx.plain_result[size_t(j)] != 1000 + j)
                    res.fail("exactly_once", "job " + std::to_string(j) + " executed " +
                                                 std::to_string(cx.plain_count[size_t(j)]) +
                                                 " times / effect not visible at loop_until_empty return (round " +
                                                 std::to_string(rd) + ")");
            }
        }
    }
    if (scen_term && abrupt) res.probe("terminate_then_destroy");
    pool.reset();   // destructor: must return
    cx.pool = nullptr;

    // ---- oracles over the recorded history ---------------------------------
    size_t nev; const sim::Event* ev = sim::rt_events(&nev);
    std::vector<int> started(size_t(nj), 0), ended(size_t(nj), 0);
    int64_t running = 0; size_t nstart = 0, nend = 0;
    uint64_t first_term_call = UINT64_MAX;
    std::vector<uint64_t> enq_done(size_t(nj), UINT64_MAX);
    for (size_t i = 0; i < nev; ++i) {
        const sim::Event& e = ev[i];
        switch (e.kind) {
        case EV_JOB_START: started[size_t(e.a)]++; running++; nstart++; break;
        case EV_JOB_END: ended[size_t(e.a)]++; running--; nend++; break;
        case EV_ENQ_DONE: enq_done[size_t(e.a)] = e.seq; break;
        case EV_TERM_CALL: if (first_term_call == UINT64_MAX) first_term_call = e.seq; break;
        case EV_WAIT_RET:
            if (scen_term) {
                if (first_term_call == UINT64_MAX)
                    res.fail("terminate_wait", "loop_until_terminate returned before terminate() was called");
                if (running != 0)
                    res.fail("terminate_wait", "loop_until_terminate returned while " + std::to_string(running) +
                                                   " job(s) were running");
                res.probe("wait_terminate_returned");
            } else {
                if (running != 0 && e.b == 0)
                    res.fail("quiescence", "loop_until_empty returned while " + std::to_string(running) +
                                               " job(s) were running");
                // every job whose enqueue returned before this waiter called must be done
                uint64_t call = 0;
                for (size_t k = i; k-- > 0;)
                    if (ev[k].kind == EV_WAIT_CALL && ev[k].a == e.a && ev[k].tid == e.tid) { call = ev[k].seq; break; }
                for (int j = 0; j < nj; ++j)
                    if (enq_done[size_t(j)] < call && ended[size_t(j)] != 1)
                        res.fail("quiescence", "job " + std::to_string(j) + " enqueued before loop_until_empty was "
                                                   "called but not finished when it returned");
                res.probe("wait_empty_returned");
            }
            break;
        default: break;
        }
    }
    for (int j = 0; j < nj; ++j) {
        int64_t c = sim::rt_cell_get(uint32_t(j));
        if (c > 1) res.fail("exactly_once", "job " + std::to_string(j) + " executed " + std::to_string(c) + " times");
        if (started[size_t(j)] != ended[size_t(j)])
            res.fail("job_unfinished", "job " + std::to_string(j) + " started but did not finish before the pool was destroyed");
        if (!scen_term && !abrupt && c != 1)
            res.fail("exactly_once", "job " + std::to_string(j) + " executed " + std::to_string(c) + " times (pool not terminated)");
    }
    if (scen_term) {
        // no job may start after a loop_until_terminate has returned
        uint64_t first_ret = UINT64_MAX;
        for (size_t i = 0; i < nev; ++i) if (ev[i].kind == EV_WAIT_RET) { first_ret = ev[i].seq; break; }
        // (whether queued jobs may still be started after the termination wait has returned is not
        // part of the statement: counted, not judged)
        for (size_t i = 0; i < nev; ++i)
            if (ev[i].kind == EV_JOB_START && ev[i].seq > first_ret) { res.probe("job_started_after_terminate_wait_returned"); break; }
        if (nstart < size_t(nj)) res.probe("terminated_with_queued_jobs");
    }
    if (nj == 0) res.probe("no_jobs");
    for (auto& jb : cx.jobs) if (jb.children.size() > 1024 * size_t(p)) { res.probe("job_with_fan_out_beyond_1024_per_worker"); break; }
    res.probe("jobs", uint64_t(nj));
    if (g_nested_bad.load()) res.fail("quiescence", "a job that waited for a pool of its own (loop_until_empty on the inner pool) found inner jobs not run, their effects missing or done() short");
    uint64_t nst = 0;
    for (auto& jb : cx.jobs) nst += jb.nested ? 1 : 0;
    if (nst) res.probe("jobs_waiting_for_an_inner_pool", nst);
    uint64_t thr = 0;
    for (auto& jb : cx.jobs) thr += jb.throws ? 1 : 0;
    if (thr) res.probe("jobs_ending_with_an_exception", thr);
}

const sim::HarnessDef def = {"C10", true, 30, generate, execute, nullptr};

} // namespace

int main(int argc, char** argv) {
    std::cerr.rdbuf(nullptr);   // the pool logs caught job exceptions to std::cerr: not wanted in the workers' report stream
    return sim::worker_main(argc, argv, def);
}
