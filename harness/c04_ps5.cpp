// harness/c04_ps5.cpp -- C04: sort_strings_parallel (pS5) is correct, race-free
// and memory-safe under every schedule, for every threshold tuning.
//
// Real code: tlx/sort/strings_parallel.hpp, sort/strings/parallel_sample_sort.hpp,
// sample_sort_tools.hpp, string_ptr.hpp, string_set.hpp, insertion_sort.hpp,
// thread_pool.{hpp,cpp}, multi_timer.cpp, logger/core.cpp, die/core.cpp.
// Stub: std::thread/mutex/condition_variable/atomic, std::minstd_rand (seeded
// from the run instead of a heap address), hardware_concurrency (= worker count).
//
// The pS5 template instantiations live in c04_a..e.cpp (compile time).
#include "../sim/sim.hpp"

#include "c04/c04_common.hpp"

#include <algorithm>

namespace c04 {
bool run_a(int, int, bool, const Input&, Output&);
bool run_b(int, int, bool, const Input&, Output&);
bool run_c(int, int, bool, const Input&, Output&);
bool run_d(int, int, bool, const Input&, Output&);
bool run_e(int, int, bool, const Input&, Output&);
} // namespace c04

namespace {

using sim::Workload;
using sim::Result;
using sim::Rng;

struct Variant { int param, set; };
const Variant VARIANTS[] = {
    {1, c04::SK_UCHAR}, {2, c04::SK_UCHAR}, {3, c04::SK_UCHAR}, {4, c04::SK_UCHAR},
    {5, c04::SK_UCHAR}, {6, c04::SK_UCHAR}, {7, c04::SK_UCHAR}, {8, c04::SK_UCHAR},
    {1, c04::SK_CCHAR}, {6, c04::SK_CCHAR}, {2, c04::SK_STDSTRING}, {4, c04::SK_STDSTRING},
    {1, c04::SK_UPTR}, {5, c04::SK_UPTR}, {1, c04::SK_SUFFIX}, {4, c04::SK_SUFFIX},
    {0, c04::SK_UCHAR}, {0, c04::SK_CCHAR}, {0, c04::SK_STDSTRING},
};
constexpr int NVAR = int(sizeof(VARIANTS) / sizeof(VARIANTS[0]));
const char* const SETNAMES[] = {"unsigned char*", "const unsigned char*", "std::string", "unique_ptr<std::string>", "suffixes"};
const char* const PARAMNAMES[] = {
    "default(front end)", "ss16/ins4/tb2/calc/ws", "ss64/ins8/tb3/unroll/ws/rest", "ss256/ins32/tb4/equal",
    "ss16/ins8/tb3/equal/ws/rest", "ss64/ins4/tb4/calc/rest", "ss32/ins16/tb2/unroll/ws", "ss16/ins4/tb4/calc/ws/rest/key32",
    "ss24/ins6/tb1/equal/ws"};

enum { C_VARIANT = 0, C_LCP = 1 };

void gen_string(Rng& r, std::vector<int64_t>& s, int alpha, int maxlen) {
    int len = int(r.range(0, maxlen));
    for (int i = 0; i < len; ++i) s.push_back(1 + int64_t(r.below(uint64_t(alpha))));
}

enum { C_BIG_N = 2, C_BIG_SEED = 3, C_BIG_SHAPE = 4 };

void generate(Rng& r, Workload& w, int tier) {
    if (tier && r.chance(1, 40000)) {
        // thorough tier only: the real default thresholds (1 Mi strings) reach the parallel
        // big step, nested (flipped) steps and -- with one worker -- the sequential sample sort.
        // The strings are generated from (seed, shape) inside execute(), not listed as ops.
        w.cfg = {int64_t(16 + r.below(3)), int64_t(r.below(2)), int64_t(r.range(1050000, 1300000)), int64_t(r.next() >> 2), int64_t(r.below(3))};
        return;
    }
    if (tier && r.chance(1, 5000)) {
        // thorough tier only: a tiny-threshold variant on exactly 2^16 - 1, 2^16 or 2^16 + 1 strings (widths of
        // index types); with one worker the whole input is one small-sort job that runs the sequential sample sort
        static const int64_t sizes[] = {65535, 65536, 65537};
        w.cfg = {int64_t(r.below(14)), int64_t(r.below(2)), r.pick(sizes), int64_t(r.next() >> 2), int64_t(r.below(3))};
        return;
    }
    int v = int(r.below(NVAR));
    w.cfg = {v, int64_t(r.below(2))};
    const bool suffix = VARIANTS[v].set == c04::SK_SUFFIX;
    int nmax = tier ? 1500 : 300;
    int n;
    uint64_t k = r.below(10);
    if (k < 2) n = int(r.range(0, 6));
    else if (k < 6) n = int(r.range(0, 60));
    else n = int(r.range(0, nmax));
    int shape = int(r.below(8));
    if (suffix) {
        // one text; its suffixes are the strings
        std::vector<int64_t> text;
        int alpha = shape == 1 ? 1 : int(r.range(1, 4));
        for (int i = 0; i < n; ++i) text.push_back(1 + int64_t(r.below(uint64_t(alpha))));
        w.ops.push_back(text);
        return;
    }
    std::vector<int64_t> base;
    static const int plens[] = {7, 8, 9, 15, 16, 17, 24, 3};
    switch (shape) {
    case 0: case 7: {
        int alpha = int(r.range(1, 4));
        static const int L[] = {3, 8, 20};
        int maxlen = r.pick(L);
        for (int i = 0; i < n; ++i) { std::vector<int64_t> s; gen_string(r, s, alpha, maxlen); w.ops.push_back(s); }
        break;
    }
    case 1:
        gen_string(r, base, 3, 20);
        for (int i = 0; i < n; ++i) w.ops.push_back(base);
        break;
    case 2:
        for (int i = 0; i < n; ++i) w.ops.push_back({});
        break;
    case 3: {
        int pl = r.pick(plens);
        for (int i = 0; i < pl; ++i) base.push_back(1 + int64_t(r.below(2)));
        for (int i = 0; i < n; ++i) { std::vector<int64_t> s = base; gen_string(r, s, 2, 6); w.ops.push_back(s); }
        break;
    }
    case 4:
        for (int i = 0; i < n; ++i) { std::vector<int64_t> s; gen_string(r, s, 255, 12); w.ops.push_back(s); }
        break;
    case 5: {
        int distinct = int(r.range(1, 5));
        std::vector<std::vector<int64_t> > pool(static_cast<size_t>(distinct));
        for (auto& s : pool) gen_string(r, s, 2, 18);
        for (int i = 0; i < n; ++i) w.ops.push_back(pool[r.below(uint64_t(distinct))]);
        break;
    }
    case 6: {
        int64_t c = 1 + int64_t(r.below(2));
        for (int i = 0; i < n; ++i) w.ops.push_back(std::vector<int64_t>(size_t(r.below(30)), c));
        break;
    }
    }
}

size_t common_prefix(const std::string& a, const std::string& b) {
    size_t i = 0;
    while (i < a.size() && i < b.size() && a[i] == b[i]) ++i;
    return i;
}
bool byte_less(const std::string& a, const std::string& b) {
    size_t m = std::min(a.size(), b.size());
    int c = m ? memcmp(a.data(), b.data(), m) : 0;
    return c < 0 || (c == 0 && a.size() < b.size());
}
std::string show(const std::string& s) {
    std::string o;
    for (unsigned char c : s.substr(0, 24)) { char b[8]; snprintf(b, sizeof b, c >= 33 && c < 127 ? "%c" : "\\x%02x", c); o += b; }
    if (s.size() > 24) o += "...";
    return o;
}

void execute(const Workload& w, Result& res) {
    const int vi = int(sim::modn(sim::cfg_at(w, C_VARIANT), NVAR));
    const Variant var = VARIANTS[vi];
    const bool lcp = sim::modn(sim::cfg_at(w, C_LCP), 2) == 1;
    c04::Input in;
    const int64_t big_n = sim::cfg_at(w, C_BIG_N);
    if (big_n > 0) {
        Rng g(uint64_t(sim::cfg_at(w, C_BIG_SEED)));
        const int shape = int(sim::modn(sim::cfg_at(w, C_BIG_SHAPE), 3));
        std::string prefix;
        for (int i = 0; i < 8 + int(g.below(17)); ++i) prefix.push_back(char('a' + g.below(2)));
        std::vector<std::string> pool;
        for (int i = 0; i < 1000; ++i) { std::string t; for (int k = int(g.below(20)); k > 0; --k) t.push_back(char('a' + g.below(3))); pool.push_back(t); }
        in.strings.reserve(size_t(big_n));
        for (int64_t i = 0; i < big_n && i < 1500000; ++i) {
            std::string t;
            if (shape == 0) { for (int k = int(g.below(17)); k > 0; --k) t.push_back(char('a' + g.below(4))); }
            else if (shape == 1) { t = prefix; for (int k = int(g.below(9)); k > 0; --k) t.push_back(char('a' + g.below(2))); }
            else t = pool[g.below(1000)];
            in.strings.push_back(std::move(t));
        }
        res.probe(big_n > 1000000 ? "big_default_threshold_run" : "run_of_about_65536_strings");
    }
    for (auto& op : w.ops) {
        std::string s;
        for (int64_t b : op) s.push_back(char(1 + sim::modn(b - 1, 255)));
        in.strings.push_back(s);
        if (in.strings.size() >= 5000) break;
    }
    std::vector<std::string> expect_in = in.strings;
    if (var.set == c04::SK_SUFFIX) {
        expect_in.clear();
        if (in.strings.empty()) in.strings.push_back("");
        in.strings.resize(1);
        for (size_t i = 0; i < in.strings[0].size(); ++i) expect_in.push_back(in.strings[0].substr(i));
    }
    c04::Output out;
    bool ran = c04::run_a(var.param, var.set, lcp, in, out) || c04::run_b(var.param, var.set, lcp, in, out) ||
               c04::run_c(var.param, var.set, lcp, in, out) || c04::run_d(var.param, var.set, lcp, in, out) ||
               c04::run_e(var.param, var.set, lcp, in, out);
    if (!ran) { res.fail("machinery", "variant not instantiated"); return; }

    const size_t n = expect_in.size();
    std::string cfgs = std::string(PARAMNAMES[var.param]) + " " + SETNAMES[var.set] + (lcp ? " lcp" : "") + " n=" + std::to_string(n) +
                       " workers=" + std::to_string(sim::rt_hw_concurrency());
    if (out.strings.size() != n) { res.fail("ps5_size", cfgs); return; }
    // permutation of the original objects
    bool tracked = n > 0 && out.origin[0] != -1;
    if (tracked) {
        std::vector<char> seen(n, 0);
        for (size_t i = 0; i < n; ++i) {
            long o = out.origin[i];
            if (o < 0 || size_t(o) >= n) { res.fail("ps5_not_permutation", cfgs + ": position " + std::to_string(i) + " holds an object that is not one of the inputs"); break; }
            if (seen[size_t(o)]) { res.fail("ps5_not_permutation", cfgs + ": input object " + std::to_string(o) + " appears twice"); break; }
            seen[size_t(o)] = 1;
            if (out.strings[i] != expect_in[size_t(o)]) { res.fail("ps5_not_permutation", cfgs + ": object content changed"); break; }
        }
    } else {
        std::vector<std::string> a = expect_in, b = out.strings;
        std::sort(a.begin(), a.end()); std::sort(b.begin(), b.end());
        if (a != b) res.fail("ps5_not_permutation", cfgs + ": output multiset differs from the input");
    }
    for (size_t i = 1; i < n; ++i)
        if (byte_less(out.strings[i], out.strings[i - 1])) {
            res.fail("ps5_not_sorted", cfgs + ": position " + std::to_string(i - 1) + " '" + show(out.strings[i - 1]) + "' > position " +
                                           std::to_string(i) + " '" + show(out.strings[i]) + "'");
            break;
        }
    if (lcp) {
        if (out.lcp.size() != n) res.fail("ps5_lcp", cfgs + ": lcp array size");
        else
            for (size_t i = 1; i < n; ++i) {
                size_t e = common_prefix(out.strings[i - 1], out.strings[i]);
                if (out.lcp[i] != e) {
                    res.fail("ps5_lcp", cfgs + ": lcp[" + std::to_string(i) + "]=" +
                                            (out.lcp[i] == c04::LCP_POISON ? std::string("<never written>") : std::to_string(out.lcp[i])) +
                                            " expected " + std::to_string(e) + " ('" + show(out.strings[i - 1]) + "' / '" + show(out.strings[i]) + "')");
                    break;
                }
            }
    }
    res.probe((std::string("param_") + std::to_string(var.param)).c_str());
    res.probe((std::string("set_") + std::to_string(var.set)).c_str());
    if (lcp) res.probe("with_lcp");
    if (n >= 2 && expect_in.front() == expect_in.back() && std::all_of(expect_in.begin(), expect_in.end(), [&](const std::string& s) { return s == expect_in[0]; }))
        res.probe("all_equal_input");
}

void tune(Rng& r, sim::SimCfg& c) {
    // the worker count of pS5 is hardware_concurrency(): mostly small pools
    static const int64_t hw[] = {1, 2, 2, 3, 3, 4, 5, 8};
    c.hw_concurrency = r.pick(hw);
    c.step_bound = 3000000;
}

const sim::HarnessDef def = {"C04", true, 300, generate, execute, tune};

} // namespace

int main(int argc, char** argv) { return sim::worker_main(argc, argv, def); }
