// harness/c06_pmsort.cpp -- C06: parallel_mergesort sorts (stably when asked)
// for every size and thread count; race-free; temporaries destroyed.
//
// Real code: tlx/sort/parallel_mergesort.hpp, algorithm/multiway_merge.hpp,
// multisequence_partition.hpp, multiway_merge_splitting.hpp,
// thread_barrier_mutex.hpp, container/loser_tree.hpp, simple_vector.hpp.
// Stub: std::thread/mutex/condition_variable (scheduler shims).
#include "../sim/sim.hpp"
#include "../sim/tracked.hpp"

#include <tlx/sort/parallel_mergesort.hpp>

#include <algorithm>
#include <atomic>
#include <deque>

namespace {

using sim::Workload;
using sim::Result;
using sim::Rng;

enum { C_STABLE = 0, C_THREADS, C_MWMSA, C_OVERSAMPLE, C_ELEM, C_DEFAULT_THREADS, C_ORDER, C_RANGE };

struct Pod { int key; int idx; };
// adversarial operator<: the opposite of "less by key" (the sort must use the comparator it was given)
inline bool operator<(const Pod& a, const Pod& b) { return a.key > b.key; }

void generate(Rng& r, Workload& w, int tier) {
    int64_t threads = r.chance(1, 8) ? r.range(6, 10) : r.range(0, 5);   // 0..5 -> 1..6 threads, 6 -> 16, 7 -> 24, 8 -> 32, 9/10 -> huge
    w.cfg = {int64_t(r.below(2)), threads, int64_t(r.below(2)), r.range(0, 3), int64_t(r.below(2)),
             r.chance(1, 8) ? 1 : 0, int64_t(r.below(2)),
             r.chance(2, 3) ? 0 : r.range(1, 2)};   // range kind: 0 vector, 1 deque, 2 reverse iterators
    int nmax = tier ? 300 : 64;
    int n;
    uint64_t k = r.below(10);
    if (k < 2) n = int(r.range(0, 3));
    else if (k < 4) n = int(r.range(0, (threads >= 6 ? 33 : threads + 1) + 1));        // n < threads and around it
    else n = int(r.range(0, nmax));
    int shape = int(r.below(6));
    int universe = shape == 0 ? 1 : shape == 1 ? int(r.range(2, 4)) : shape == 2 ? 1000 : int(r.range(1, 8));
    for (int i = 0; i < n; ++i) {
        int64_t key;
        if (shape == 3) key = i / 3;                       // sorted with runs
        else if (shape == 4) key = (n - i) / 2;            // reversed with runs
        else key = int64_t(r.below(uint64_t(universe)));
        w.ops.push_back({key});
    }
}

std::atomic<int> g_cmp_moved_from{0};
template <class T> int keyof(const T& t);
template <> int keyof<Pod>(const Pod& p) { return p.key; }
template <> int keyof<sim::Tracked>(const sim::Tracked& p) { return p.k(); }

template <class T>
void run(const Workload& w, Result& res) {
    const bool stable = sim::modn(sim::cfg_at(w, C_STABLE), 2) == 1;
    int64_t tv = sim::modn(sim::cfg_at(w, C_THREADS), 11);
    // (9, 10: "as many as possible" -- legal thread counts far beyond the element count and beyond PTRDIFF_MAX)
    const size_t threads = tv == 10 ? (size_t(1) << 63) : tv == 9 ? ~size_t(0) : size_t(tv == 8 ? 32 : tv == 7 ? 24 : tv == 6 ? 16 : 1 + tv);
    const bool sampling = sim::modn(sim::cfg_at(w, C_MWMSA), 2) == 1;
    const size_t oversample = size_t(1 + sim::modn(sim::cfg_at(w, C_OVERSAMPLE), 4));
    const bool default_threads = sim::modn(sim::cfg_at(w, C_DEFAULT_THREADS), 2) == 1;
    const bool greater = sim::modn(sim::cfg_at(w, C_ORDER), 2) == 1;
    tlx::parallel_multiway_merge_oversampling = oversample;
    const tlx::MultiwayMergeSplittingAlgorithm mw = sampling ? tlx::MWMSA_SAMPLING : tlx::MWMSA_EXACT;

    const int64_t live0 = sim::tracked_live();
    {
        std::vector<T> v;
        v.reserve(w.ops.size());
        // the sort starts min(threads, n) threads: with a huge thread count the input is kept within what the
        // simulator can run (128 simulated threads)
        const size_t n_used = threads > 100 ? std::min<size_t>(w.ops.size(), 100) : w.ops.size();
        for (size_t i = 0; i < n_used; ++i) v.push_back(T{int(w.ops[i].empty() ? 0 : sim::modn(w.ops[i][0], 100000)), int(i)});
        std::vector<std::pair<int, int> > in;
        for (auto& e : v) in.emplace_back(keyof(e), e.idx);
        const size_t n = v.size();
        const int64_t live1 = sim::tracked_live();

        // a comparator with unsynchronised per-instance state (a call counter), as std::sort allows: the sort hands
        // every thread its own copies; one instance called from two threads is a data race (seen by the tsan flavour)
        struct Cmp {
            bool greater;
            mutable uint64_t calls = 0;
            bool operator()(const T& a, const T& b) const {
                ++calls;
                // an element that has been moved from has no value any more: handing it to the user's comparator
                // is a use of an object outside its (value) lifetime
                if (keyof(a) == sim::Tracked::MOVED_FROM || keyof(b) == sim::Tracked::MOVED_FROM) g_cmp_moved_from.store(1, std::memory_order_relaxed);
                return greater ? keyof(a) > keyof(b) : keyof(a) < keyof(b);
            }
        };
        Cmp cmp{greater};
        // "every input range": a vector, a deque (not contiguous) or reverse iterators (backwards in memory)
        const int range_kind = int(sim::modn(sim::cfg_at(w, C_RANGE), 3));
        auto do_sort = [&](auto first, auto last) {
            if (default_threads) {
                if (stable) tlx::stable_parallel_mergesort(first, last, cmp);
                else tlx::parallel_mergesort(first, last, cmp);
            } else {
                if (stable) tlx::stable_parallel_mergesort(first, last, cmp, threads, mw);
                else tlx::parallel_mergesort(first, last, cmp, threads, mw);
            }
        };
        int64_t extra_live = 0;
        if (range_kind == 1) {
            std::deque<T> dq(v.begin(), v.end());
            do_sort(dq.begin(), dq.end());
            std::copy(dq.begin(), dq.end(), v.begin());
            res.probe("range_deque");
        } else if (range_kind == 2) {
            // sorting the reversed view: reverse the data first so that the view shows the original order
            std::reverse(v.begin(), v.end());
            do_sort(v.rbegin(), v.rend());
            std::reverse(v.begin(), v.end());
            res.probe("range_reverse_iterators");
        } else {
            do_sort(v.begin(), v.end());
        }
        (void)extra_live;
        const int64_t live2 = sim::tracked_live();
        if (g_cmp_moved_from.exchange(0)) res.fail("pmsort_moved_from_compared", "the comparator was called with an element that had been moved from");

        std::vector<std::pair<int, int> > out;
        for (auto& e : v) out.emplace_back(keyof(e), e.idx);
        auto pcmp = [greater](const std::pair<int, int>& a, const std::pair<int, int>& b) {
            return greater ? a.first > b.first : a.first < b.first;
        };
        std::string cfgs = std::string(stable ? "stable " : "unstable ") + (sampling ? "sampling" : "exact") + " n=" + std::to_string(n) +
                           " threads=" + (default_threads ? "default" : std::to_string(threads)) + " oversampling=" + std::to_string(oversample);
        if (out.size() != n) res.fail("pmsort_size", cfgs);
        bool sorted = std::is_sorted(out.begin(), out.end(), pcmp);
        if (!sorted) res.fail("pmsort_not_sorted", cfgs + ": output is not in comparator order");
        std::vector<std::pair<int, int> > a = in, b = out;
        std::sort(a.begin(), a.end()); std::sort(b.begin(), b.end());
        if (a != b) res.fail("pmsort_not_permutation", cfgs + ": output is not a permutation of the input");
        if (stable) {
            std::vector<std::pair<int, int> > ref = in;
            std::stable_sort(ref.begin(), ref.end(), pcmp);
            if (ref != out) {
                size_t at = 0;
                while (at < n && ref[at] == out[at]) ++at;
                res.fail("pmsort_not_stable", cfgs + ": differs from std::stable_sort at position " + std::to_string(at));
            }
        }
        if (live2 != live1)
            res.fail("pmsort_temporaries_alive", cfgs + ": " + std::to_string(live2 - live1) +
                                                     " temporary element copies still alive when the sort returned");
        if (n >= 2 && threads >= 2) res.probe("multi_thread_sort");
        if (n > 0 && n < threads) res.probe("n_less_than_threads");
        if (threads > 16 && n > 16) res.probe("more_than_16_pieces");
        if (n % (threads ? threads : 1) != 0) res.probe("n_not_divisible");
        if (sampling) res.probe("sampling"); else res.probe("exact");
        if (stable) res.probe("stable");
    }
    if (sim::tracked_live() != live0) res.fail("pmsort_leak", "element instances leaked");
    if (sim::tracked_err_destroy()) res.fail("pmsort_double_destroy", "an element was destroyed twice or a non-element was destroyed");
    if (sim::tracked_err_use()) res.fail("pmsort_use_after_destroy", "a destroyed or never constructed element was read");
}

void execute(const Workload& w, Result& res) {
    if (sim::modn(sim::cfg_at(w, C_ELEM), 2) == 1) { res.probe("heap_owning_elements"); run<sim::Tracked>(w, res); }
    else run<Pod>(w, res);
}

const sim::HarnessDef def = {"C06", true, 60, generate, execute, nullptr};

} // namespace

int main(int argc, char** argv) { return sim::worker_main(argc, argv, def); }
