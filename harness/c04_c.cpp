#include "c04/c04_params.hpp"
namespace c04 {
bool run_c(int param, int setkind, bool lcp, const Input& in, Output& out) {
    if (setkind == SK_CCHAR && param == 1) { if (lcp) sort_charptr<P1, const unsigned char, true>(in, out); else sort_charptr<P1, const unsigned char, false>(in, out); return true; }
    if (setkind == SK_CCHAR && param == 6) { if (lcp) sort_charptr<P6, const unsigned char, true>(in, out); else sort_charptr<P6, const unsigned char, false>(in, out); return true; }
    if (setkind == SK_STDSTRING && param == 2) { if (lcp) sort_stdstring<P2, true>(in, out); else sort_stdstring<P2, false>(in, out); return true; }
    if (setkind == SK_STDSTRING && param == 4) { if (lcp) sort_stdstring<P4, true>(in, out); else sort_stdstring<P4, false>(in, out); return true; }
    return false;
}
}
