// harness/c16_ring.cpp -- C16: RingBuffer is a bounded deque; RingBuffer and
// SimpleVector (default mode) keep element lifetimes exact.
//
// Single task.  Real code: tlx/container/ring_buffer.hpp, simple_vector.hpp.
// Simulator-owned environment: the allocator (sim::Alloc as Allocator argument
// of RingBuffer; class-level operator new[]/delete[] of the element type for
// SimpleVector) with seeded recycling, poisoning, quarantine and canaries, and
// the element-lifetime ledger.  Reference model: std::deque / std::vector.
#include "../sim/sim.hpp"
#include "../sim/alloc.hpp"
#include "../sim/tracked.hpp"

#include <tlx/container/ring_buffer.hpp>
#include <tlx/container/simple_vector.hpp>

#include <deque>
#include <memory>

namespace {

using sim::Workload;
using sim::Result;
using sim::Rng;

enum { C_PART = 0, C_QLEN, C_RECYCLE, C_ARENAS };
enum { P_RING_INT = 0, P_RING_TRACKED, P_SV_NORMAL, P_SV_NOINIT_DESTROY, P_SV_NOINIT_NODESTROY, P_RING_TRACKED_IL, P_SV_SIZE_T, P_N };
enum {
    R_CONSTRUCT = 0, R_PUSH_BACK, R_PUSH_BACK_MOVE, R_EMPLACE_BACK, R_PUSH_FRONT, R_PUSH_FRONT_MOVE, R_EMPLACE_FRONT,
    R_POP_FRONT, R_POP_BACK, R_CLEAR, R_COPY_CTOR, R_COPY_ASSIGN, R_MOVE_CTOR, R_MOVE_ASSIGN, R_DEALLOCATE, R_ALLOCATE,
    R_COPY_TO, R_MOVE_TO, R_DESTROY, R_DEFAULT_CTOR, R_PUSH_BACK_ALIAS, R_PUSH_FRONT_ALIAS, R_EMPLACE_BACK_ARGS,
    R_EMPLACE_FRONT_ARGS, R_N
};
enum { V_CONSTRUCT = 0, V_MOVE_CTOR, V_MOVE_ASSIGN, V_SWAP, V_RESIZE, V_DESTROY, V_FILL, V_WRITE, V_DROP, V_RESIZE_ALIAS, V_N };
const uint32_t RECYCLE[] = {0, 300, 700, 1000};

void generate(Rng& r, Workload& w, int tier) {
    int part = int(r.below(P_N));
    if ((part == P_SV_NOINIT_DESTROY || part == P_SV_NOINIT_NODESTROY) && r.chance(1, 2)) part = int(r.below(3));
    w.cfg = {part, int64_t(r.below(5)), int64_t(r.below(4)), int64_t(r.below(2))};
    int n = int(r.range(1, tier ? 200 : 60));
    if (part <= P_RING_TRACKED || part == P_RING_TRACKED_IL) {
        for (int i = 0; i < n; ++i) {
            uint64_t k = r.below(100);
            int64_t code;
            if (k < 8) code = R_CONSTRUCT;
            else if (k < 50) code = r.chance(1, 5) ? R_EMPLACE_BACK_ARGS + int64_t(r.below(2)) : R_PUSH_BACK + int64_t(r.below(6));
            else if (k < 70) code = R_POP_FRONT + int64_t(r.below(2));
            else code = R_CLEAR + int64_t(r.below(R_N - R_CLEAR));
            w.ops.push_back({code, int64_t(r.below(3)), int64_t(r.below(3)), int64_t(r.below(10))});
        }
    } else {
        for (int i = 0; i < n; ++i)
            w.ops.push_back({int64_t(r.below(V_N)), int64_t(r.below(3)), int64_t(r.below(3)), int64_t(r.below(7))});
    }
}

// an element type on which braces and parentheses disagree, like std::vector<int>(3, 7) and {3, 7}
struct TrackedIL : sim::Tracked {
    TrackedIL(int k, int id) : sim::Tracked(k, id) {}
    TrackedIL(std::initializer_list<int>) : sim::Tracked(-4242, -4242) {}
    // ... and which overloads unary operator& (smart-pointer style): generic code must use std::addressof
    int amp_target = 0;
    int* operator&() { return &amp_target; }
    const int* operator&() const { return &amp_target; }
};
template <class T> T make(int v);
template <> TrackedIL make<TrackedIL>(int v);
template <> int make<int>(int v) { return v; }
template <> sim::Tracked make<sim::Tracked>(int v) { return sim::Tracked(v, v); }
template <> TrackedIL make<TrackedIL>(int v) { return TrackedIL(v, v); }
// emplacement with the constructor's own arguments (not a prebuilt element)
template <class RB> void emplace_args(RB& r, bool back, int v, std::true_type) { if (back) r.emplace_back(v); else r.emplace_front(v); }
template <class RB> void emplace_args(RB& r, bool back, int v, std::false_type) { if (back) r.emplace_back(v, v); else r.emplace_front(v, v); }
int val(const int& v) { return v; }
int val(const sim::Tracked& t) { return t.k(); }

// ---- RingBuffer ---------------------------------------------------------------
template <class T>
void run_ring(const Workload& w, Result& res) {
    using RB = tlx::RingBuffer<T, sim::Alloc<T> >;
    struct Model { bool allocated = false; size_t max_size = 0; std::deque<int> vals; };
    constexpr int NS = 3;
    std::unique_ptr<RB> r[NS];
    Model m[NS];
    bool present[NS] = {false, false, false};
    const bool tracked = !std::is_same<T, int>::value;
    const bool arenas = sim::modn(sim::cfg_at(w, C_ARENAS), 2) == 1;   // distinct (unequal) allocator instances per slot
    auto al = [&](int slot) { return sim::Alloc<T>(arenas ? slot + 1 : 0); };
    if (arenas) res.probe("distinct_allocator_instances");
    int next_val = 1, step = 0;
    static const char* names[] = {"construct", "push_back", "push_back_move", "emplace_back", "push_front", "push_front_move",
                                  "emplace_front", "pop_front", "pop_back", "clear", "copy_ctor", "copy_assign", "move_ctor",
                                  "move_assign", "deallocate", "allocate", "copy_to", "move_to", "destroy", "default_ctor", "push_back_alias",
                                  "push_front_alias", "emplace_back_args", "emplace_front_args"};
    for (auto& op : w.ops) {
        if (op.empty()) continue;
        int code = int(sim::modn(op[0], R_N));
        int i = int(sim::modn(op.size() > 1 ? op[1] : 0, NS)), j = int(sim::modn(op.size() > 2 ? op[2] : 0, NS));
        size_t cap = size_t(sim::modn(op.size() > 3 ? op[3] : 0, 10));
        bool did = false;
        auto can_push = [&](int s) { return present[s] && m[s].allocated && m[s].vals.size() < m[s].max_size; };
        switch (code) {
        case R_CONSTRUCT:
            r[i] = nullptr; r[i] = std::make_unique<RB>(cap, al(i));
            m[i] = Model(); m[i].allocated = true; m[i].max_size = cap; present[i] = true; did = true; break;
        case R_DEFAULT_CTOR:
            r[i] = nullptr; r[i] = std::make_unique<RB>(al(i)); m[i] = Model(); present[i] = true; did = true; break;
        case R_PUSH_BACK: if (can_push(i)) { T t = make<T>(next_val); r[i]->push_back(t); m[i].vals.push_back(next_val++); did = true; } break;
        case R_PUSH_BACK_MOVE: if (can_push(i)) { r[i]->push_back(make<T>(next_val)); m[i].vals.push_back(next_val++); did = true; } break;
        case R_EMPLACE_BACK: if (can_push(i)) { r[i]->emplace_back(make<T>(next_val)); m[i].vals.push_back(next_val++); did = true; } break;
        case R_PUSH_FRONT: if (can_push(i)) { T t = make<T>(next_val); r[i]->push_front(t); m[i].vals.push_front(next_val++); did = true; } break;
        case R_PUSH_FRONT_MOVE: if (can_push(i)) { r[i]->push_front(make<T>(next_val)); m[i].vals.push_front(next_val++); did = true; } break;
        case R_EMPLACE_FRONT: if (can_push(i)) { r[i]->emplace_front(make<T>(next_val)); m[i].vals.push_front(next_val++); did = true; } break;
        // the argument is a reference to an element of the same buffer
        case R_PUSH_BACK_ALIAS:
            if (can_push(i) && !m[i].vals.empty()) {
                size_t k = cap % m[i].vals.size();
                r[i]->push_back((*r[i])[k]); m[i].vals.push_back(m[i].vals[k]); did = true;
            }
            break;
        case R_PUSH_FRONT_ALIAS:
            if (can_push(i) && !m[i].vals.empty()) {
                size_t k = cap % m[i].vals.size();
                int v = m[i].vals[k];
                r[i]->push_front((*r[i])[k]); m[i].vals.push_front(v); did = true;
            }
            break;
        case R_EMPLACE_BACK_ARGS:
            if (can_push(i)) { emplace_args(*r[i], true, next_val, std::is_same<T, int>()); m[i].vals.push_back(next_val++); did = true; }
            break;
        case R_EMPLACE_FRONT_ARGS:
            if (can_push(i)) { emplace_args(*r[i], false, next_val, std::is_same<T, int>()); m[i].vals.push_front(next_val++); did = true; }
            break;
        case R_POP_FRONT: if (present[i] && !m[i].vals.empty()) { r[i]->pop_front(); m[i].vals.pop_front(); did = true; } break;
        case R_POP_BACK: if (present[i] && !m[i].vals.empty()) { r[i]->pop_back(); m[i].vals.pop_back(); did = true; } break;
        case R_CLEAR: if (present[i]) { r[i]->clear(); m[i].vals.clear(); did = true; } break;
        case R_COPY_CTOR:
            if (present[j]) {   // (also from a buffer without storage)
                auto t = std::make_unique<RB>(*r[j]); Model mm = m[j];
                r[i] = std::move(t); m[i] = mm; present[i] = true; did = true;
            }
            break;
        case R_COPY_ASSIGN:
            if (present[i] && present[j]) { *r[i] = *r[j]; Model mm = m[j]; m[i] = mm; did = true; }
            break;
        case R_MOVE_CTOR:
            if (present[j] && i != j) {
                auto t = std::make_unique<RB>(std::move(*r[j])); Model mm = m[j];
                r[i] = std::move(t); m[i] = mm; present[i] = true;
                m[j].allocated = false; m[j].vals.clear(); did = true;
            }
            break;
        case R_MOVE_ASSIGN:
            if (present[i] && present[j]) {
                *r[i] = std::move(*r[j]);
                if (i != j) { Model mm = m[j]; m[i] = mm; m[j].allocated = false; m[j].vals.clear(); }
                did = true;
            }
            break;
        case R_DEALLOCATE: if (present[i]) { r[i]->deallocate(); m[i].allocated = false; m[i].vals.clear(); did = true; } break;
        case R_ALLOCATE: if (present[i] && !m[i].allocated) { r[i]->allocate(cap); m[i].allocated = true; m[i].max_size = cap; m[i].vals.clear(); did = true; } break;
        case R_COPY_TO:
            if (present[i] && m[i].allocated) {
                std::vector<T> out; r[i]->copy_to(&out);
                if (out.size() != m[i].vals.size()) res.fail("ring_contents", "copy_to size");
                for (size_t k = 0; k < out.size() && k < m[i].vals.size(); ++k) if (val(out[k]) != m[i].vals[k]) res.fail("ring_contents", "copy_to element");
                did = true;
            }
            break;
        case R_MOVE_TO:
            if (present[i] && m[i].allocated) {
                std::vector<T> out; r[i]->move_to(&out);
                if (out.size() != m[i].vals.size()) res.fail("ring_contents", "move_to size");
                for (size_t k = 0; k < out.size() && k < m[i].vals.size(); ++k) if (val(out[k]) != m[i].vals[k]) res.fail("ring_contents", "move_to element");
                m[i].vals.clear(); did = true;
            }
            break;
        case R_DESTROY: if (present[i]) { r[i] = nullptr; present[i] = false; m[i] = Model(); did = true; } break;
        }
        if (!did) { ++step; continue; }
        sim::rt_note(uint32_t(code), uint32_t(m[i].vals.size()));
        res.probe(names[code]);
        std::string at = std::string(names[code]) + "(" + std::to_string(i) + "," + std::to_string(j) + "," + std::to_string(cap) + ") at step " + std::to_string(step);
        // the bounded-deque model, on every live buffer
        size_t expect_live = 0;
        for (int s = 0; s < NS; ++s) {
            if (!present[s]) continue;
            expect_live += m[s].vals.size();
            if (!m[s].allocated) { if (r[s]->size() != 0) res.fail("ring_contents", "unallocated buffer reports size " + std::to_string(r[s]->size()) + " after " + at); continue; }
            const RB& b = *r[s];
            if (b.size() != m[s].vals.size() || b.empty() != m[s].vals.empty()) {
                res.fail("ring_contents", "buffer " + std::to_string(s) + " size()=" + std::to_string(b.size()) + " model " + std::to_string(m[s].vals.size()) + " after " + at);
                continue;
            }
            if (b.max_size() != m[s].max_size) res.fail("ring_contents", "max_size() wrong after " + at);
            for (size_t k = 0; k < m[s].vals.size(); ++k)
                if (val(b[k]) != m[s].vals[k]) { res.fail("ring_contents", "buffer " + std::to_string(s) + " [" + std::to_string(k) + "]=" + std::to_string(val(b[k])) + " model " + std::to_string(m[s].vals[k]) + " after " + at); break; }
            if (!m[s].vals.empty() && (val(b.front()) != m[s].vals.front() || val(b.back()) != m[s].vals.back()))
                res.fail("ring_contents", "front()/back() of buffer " + std::to_string(s) + " wrong after " + at);
            if (m[s].vals.size() == m[s].max_size && m[s].max_size > 0) res.probe("ring_full");
        }
        if (tracked) {
            if (sim::tracked_err_destroy()) res.fail("ring_lifetime", "an element was destroyed twice / a non-element was destroyed, after " + at);
            else if (sim::tracked_err_use()) res.fail("ring_lifetime", "a destroyed or never constructed element was accessed, after " + at);
            else if (size_t(sim::tracked_live()) != expect_live)
                res.fail("ring_lifetime", std::to_string(sim::tracked_live()) + " elements alive, " + std::to_string(expect_live) + " stored, after " + at);
        }
        ++step;
        if (!res.ok) break;
    }
    for (auto& p : r) p = nullptr;
    if (tracked && res.ok && sim::tracked_live() != 0) res.fail("ring_lifetime", std::to_string(sim::tracked_live()) + " elements alive after all buffers were destroyed");
    if (tracked && res.ok && sim::tracked_err_destroy()) res.fail("ring_lifetime", "double destroy during destruction");
}

// ---- SimpleVector -------------------------------------------------------------
// element type for the default mode: ledgered, and its arrays are allocated
// through the simulated allocator environment
struct TrackedA : public sim::Tracked {
    using sim::Tracked::Tracked;
    TrackedA() = default;
    static void* operator new[](std::size_t bytes) { return sim::alloc_env().allocate(bytes, 0x5eed); }
    static void operator delete[](void* p, std::size_t bytes) { if (p) sim::alloc_env().deallocate(p, bytes, 0x5eed); }
};
int val(const TrackedA& t) { return t.k(); }
template <class T> T mk(int v);
template <> int mk<int>(int v) { return v; }
template <> TrackedA mk<TrackedA>(int v) { return TrackedA(v, v); }
template <> size_t mk<size_t>(int v) { return size_t(v); }
int val(const size_t& v) { return int(v); }
template <class T> void assign(T& dst, int v);
template <> void assign<size_t>(size_t& dst, int v) { dst = size_t(v); }
// resize() with the new size given as a reference to one of the vector's own elements (only a size_t element
// can be one): v.resize(v[k])
template <class SV> void resize_by_own_element(SV& v, size_t k, std::true_type) { v.resize(v[k]); }
template <class SV> void resize_by_own_element(SV& v, size_t k, std::false_type) { v.resize(size_t(val(v[k]))); }
template <> void assign<int>(int& dst, int v) { dst = v; }
template <> void assign<TrackedA>(TrackedA& dst, int v) { dst = TrackedA(v, v); }

template <class T, tlx::SimpleVectorMode Mode>
void run_sv(const Workload& w, Result& res) {
    using SV = tlx::SimpleVector<T, Mode>;
    constexpr int NS = 3;
    const bool tracked = std::is_same<T, TrackedA>::value;
    const bool inits = Mode == tlx::SimpleVectorMode::Normal;
    std::unique_ptr<SV> v[NS];
    std::vector<int> m[NS];
    std::vector<char> known[NS];     // element value defined (NoInit modes leave garbage)
    bool present[NS] = {false, false, false};
    static const char* names[] = {"construct", "move_ctor", "move_assign", "swap", "resize", "destroy", "fill", "write", "drop", "resize_by_own_element"};
    int step = 0, next_val = 1;
    for (auto& op : w.ops) {
        if (op.empty()) continue;
        int code = int(sim::modn(op[0], V_N));
        int i = int(sim::modn(op.size() > 1 ? op[1] : 0, NS)), j = int(sim::modn(op.size() > 2 ? op[2] : 0, NS));
        size_t n = size_t(sim::modn(op.size() > 3 ? op[3] : 0, 7));
        bool did = false;
        switch (code) {
        case V_CONSTRUCT:
            v[i] = nullptr; v[i] = std::make_unique<SV>(n); m[i].assign(n, 0); known[i].assign(n, inits ? 1 : 0); present[i] = true; did = true; break;
        case V_MOVE_CTOR:
            if (present[j] && i != j) {
                auto t = std::make_unique<SV>(std::move(*v[j]));
                v[i] = std::move(t); m[i] = m[j]; known[i] = known[j]; present[i] = true; m[j].clear(); known[j].clear(); did = true;
            }
            break;
        case V_MOVE_ASSIGN:
            if (present[i] && present[j]) { *v[i] = std::move(*v[j]); if (i != j) { m[i] = m[j]; known[i] = known[j]; m[j].clear(); known[j].clear(); } did = true; }
            break;
        case V_SWAP: if (present[i] && present[j]) { v[i]->swap(*v[j]); std::swap(m[i], m[j]); std::swap(known[i], known[j]); did = true; } break;
        case V_RESIZE:
            if (present[i]) {
                // NoInit modes move-assign into raw storage: only trivially assignable elements are used there
                v[i]->resize(n);
                size_t keep = std::min(n, m[i].size());
                m[i].resize(n, 0); known[i].resize(n, inits ? 1 : 0);
                for (size_t k = keep; k < n; ++k) { m[i][k] = 0; known[i][k] = inits ? 1 : 0; }
                did = true;
            }
            break;
        case V_RESIZE_ALIAS:
            if (present[i] && !m[i].empty()) {
                size_t k = size_t(next_val) % m[i].size();
                assign<T>((*v[i])[k], int(n)); m[i][k] = int(n); known[i][k] = 1;
                resize_by_own_element(*v[i], k, std::is_same<T, size_t>());
                size_t keep = std::min(n, m[i].size());
                m[i].resize(n, 0); known[i].resize(n, inits ? 1 : 0);
                for (size_t q = keep; q < n; ++q) { m[i][q] = 0; known[i][q] = inits ? 1 : 0; }
                did = true;
            }
            break;
        case V_DESTROY: if (present[i]) { v[i]->destroy(); m[i].clear(); known[i].clear(); did = true; } break;
        case V_FILL: if (present[i]) { v[i]->fill(mk<T>(next_val)); for (auto& x : m[i]) x = next_val; for (auto& k : known[i]) k = 1; next_val++; did = true; } break;
        case V_WRITE: if (present[i] && !m[i].empty()) { size_t k = n % m[i].size(); assign<T>((*v[i])[k], next_val); m[i][k] = next_val++; known[i][k] = 1; did = true; } break;
        case V_DROP: if (present[i]) { v[i] = nullptr; present[i] = false; m[i].clear(); known[i].clear(); did = true; } break;
        }
        if (!did) { ++step; continue; }
        sim::rt_note(uint32_t(0x200 + code), uint32_t(m[i].size()));
        res.probe(names[code]);
        std::string at = std::string(names[code]) + "(" + std::to_string(i) + "," + std::to_string(j) + "," + std::to_string(n) + ") at step " + std::to_string(step);
        size_t expect_live = 0;
        for (int s = 0; s < NS; ++s) {
            if (!present[s]) continue;
            expect_live += v[s]->size();
            // The statement is about SimpleVector's element *lifetimes* (alive <=> stored), not its contents:
            // differences from the value model are counted, not judged. "Stored" is what the container reports.
            if (v[s]->size() != m[s].size()) res.probe("beyond_c16.sv_size_differs_from_model");
            // "stored" is also what the iterator range spans: every element of [begin(), end()) / [data(), data()+size())
            // is touched (the ledger flags a dead one), through the const overloads too
            if (tracked) {
                const SV& cv = *v[s];
                size_t cnt = 0; long sink = 0;
                for (auto it = v[s]->begin(); it != v[s]->end(); ++it, ++cnt) sink += val(*it);
                for (auto it = cv.cbegin(); it != cv.cend(); ++it) sink += val(*it);
                for (size_t k = 0; k < cv.size(); ++k) { sink += val(cv.data()[k]); sink += val(cv[k]); }
                if (cnt != v[s]->size() || cv.end() - cv.begin() != std::ptrdiff_t(cv.size()) || (cv.size() && (cv.data() != cv.begin() || v[s]->data() != v[s]->begin())))
                    res.fail("sv_lifetime", "[begin(), end()) / data() does not span the size() stored elements, after " + at);
                if (sink == 0x7fffffffffff) res.probe("never");
            }
            for (size_t k = 0; k < m[s].size() && k < v[s]->size(); ++k)
                if (known[s][k] && val((*v[s])[k]) != m[s][k]) { res.probe("beyond_c16.sv_value_differs_from_model"); break; }
        }
        if (tracked) {
            if (sim::tracked_err_destroy()) res.fail("sv_lifetime", "an element was destroyed twice / a non-element was destroyed, after " + at);
            else if (sim::tracked_err_use()) res.fail("sv_lifetime", "a destroyed or never constructed element was accessed, after " + at);
            else if (size_t(sim::tracked_live()) != expect_live)
                res.fail("sv_lifetime", std::to_string(sim::tracked_live()) + " elements alive, " + std::to_string(expect_live) + " stored, after " + at);
        }
        ++step;
        if (!res.ok) break;
    }
    for (auto& p : v) p = nullptr;
    if (tracked && res.ok && sim::tracked_live() != 0) res.fail("sv_lifetime", std::to_string(sim::tracked_live()) + " elements alive after all vectors were destroyed");
}

void execute(const Workload& w, Result& res) {
    const int part = int(sim::modn(sim::cfg_at(w, C_PART), P_N));
    sim::alloc_env().reset(size_t(sim::modn(sim::cfg_at(w, C_QLEN), 5)), RECYCLE[sim::modn(sim::cfg_at(w, C_RECYCLE), 4)]);
    switch (part) {
    case P_RING_INT: res.probe("ring_int"); run_ring<int>(w, res); break;
    case P_RING_TRACKED: res.probe("ring_tracked"); run_ring<sim::Tracked>(w, res); break;
    case P_SV_SIZE_T: res.probe("sv_normal_size_t"); run_sv<size_t, tlx::SimpleVectorMode::Normal>(w, res); break;
    case P_RING_TRACKED_IL: res.probe("ring_tracked_initializer_list_type"); run_ring<TrackedIL>(w, res); break;
    case P_SV_NORMAL: res.probe("sv_normal_tracked"); run_sv<TrackedA, tlx::SimpleVectorMode::Normal>(w, res); break;
    case P_SV_NOINIT_DESTROY: res.probe("sv_noinit_destroy"); run_sv<int, tlx::SimpleVectorMode::NoInitButDestroy>(w, res); break;
    default: res.probe("sv_noinit_nodestroy"); run_sv<int, tlx::SimpleVectorMode::NoInitNoDestroy>(w, res); break;
    }
    // C16 speaks about elements (alive iff stored), not about storage blocks: a block that is never returned
    // is counted, not judged; releasing a block twice / through the wrong allocator / writing to a released
    // block is undefined behaviour and is judged
    sim::alloc_env().finish(false);
    if (sim::alloc_env().leaked_blocks()) res.probe("beyond_c16.storage_block_not_returned", sim::alloc_env().leaked_blocks());
    for (auto& e : sim::alloc_env().errors()) res.fail("alloc_ledger", e);
    if (sim::alloc_env().recycled()) res.probe("recycled_blocks", sim::alloc_env().recycled());
}

const sim::HarnessDef def = {"C16", true, 30, generate, execute, nullptr};

} // namespace

int main(int argc, char** argv) { return sim::worker_main(argc, argv, def); }
