#include "c04/c04_params.hpp"
namespace c04 {
bool run_a(int param, int setkind, bool lcp, const Input& in, Output& out) {
    if (setkind != SK_UCHAR) return false;
    switch (param) {
    case 1: return uchar_both<P1>(lcp, in, out);
    case 2: return uchar_both<P2>(lcp, in, out);
    case 3: return uchar_both<P3>(lcp, in, out);
    case 4: return uchar_both<P4>(lcp, in, out);
    }
    return false;
}
}
