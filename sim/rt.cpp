// sim/rt.cpp -- the simulator runtime: scheduler, strategies, fault injection,
// history and ledgers.  MUST be compiled without -fsanitize=* (see rt.hpp).
//
// Execution model (DESIGN.md 3.1): every simulated thread is a real pthread,
// exactly one of them runs at any instant, all others are parked on a private
// futex word.  After every intercepted synchronisation operation the running
// thread executes a scheduling point: a seeded strategy (or the replay list)
// decides who runs next.  Blocking is modelled: a thread that cannot proceed
// is marked disabled and is not eligible until the event it waits for happens.
#include "rt.hpp"

#include <linux/futex.h>
#include <pthread.h>
#include <time.h>
#include <sys/syscall.h>
#include <unistd.h>

#include <climits>
#include <cstdio>
#include <cstdlib>
#include <cstring>
#include <string>

namespace sim {
namespace {

constexpr int MAXT = 128;
constexpr size_t DEC_CAP = 8u << 20;
constexpr size_t EV_CAP = 1u << 18;

enum St : int {
    S_FREE = 0, S_RUN, S_MUTEX, S_CV, S_JOIN, S_SPIN, S_QUIESCE, S_EXITED, S_SLEEP
};

struct Th {
    int state;
    const void* obj;
    int gate;
    uint64_t wait_seq;
    int join_target;
    int64_t prio;
    const void* last_load;
    uint64_t last_val;
    int same_loads;
    uint64_t last_run;     // step at which the thread was last chosen (fair fallback)
    uint32_t last_wseq;    // write count of last_load's atomic when it was loaded
    bool timed;            // blocked in a wait with a timeout / in a sleep: simulated time may pass
    bool timed_out;
    bool in_jump;          // woken by the most recent jump of simulated time
    bool detached;         // std::thread::detach(): the controller waits for it at the end of the run
};

struct Xo {
    uint64_t s[4];
    static uint64_t sm(uint64_t& x) {
        uint64_t z = (x += 0x9e3779b97f4a7c15ull);
        z = (z ^ (z >> 30)) * 0xbf58476d1ce4e5b9ull;
        z = (z ^ (z >> 27)) * 0x94d049bb133111ebull;
        return z ^ (z >> 31);
    }
    void seed(uint64_t x) { for (auto& v : s) v = sm(x); }
    static uint64_t rotl(uint64_t x, int k) { return (x << k) | (x >> (64 - k)); }
    uint64_t next() {
        uint64_t r = rotl(s[1] * 5, 7) * 9, t = s[1] << 17;
        s[2] ^= s[0]; s[3] ^= s[1]; s[1] ^= s[2]; s[0] ^= s[3];
        s[2] ^= t; s[3] = rotl(s[3], 45);
        return r;
    }
    uint32_t below(uint32_t n) { return n <= 1 ? 0 : uint32_t(next() >> 11) % n; }
    bool permille(uint32_t p) { return below(1000) < p; }
};

struct Global {
    bool active;
    Th th[MAXT];
    int nth;
    SimCfg cfg;
    Xo rs, rf;                     // schedule stream, fault stream
    bool replaying;
    const uint8_t* replay;
    size_t nreplay;
    size_t ndec;
    uint64_t wait_seq;
    uint32_t next_ord;
    uint32_t static_ord;
    Stats st;
    int64_t spurious_left;
    // pct
    int64_t pct_change[8];
    int pct_nchange;
    int64_t pct_low;               // next low priority to hand out
    // rr
    int64_t rr_left;
    uint64_t rng_ctr;
    bool progress;         // since the last time jump: a notify, an atomic write, an event, a thread start/exit,
                           // or a step by a thread the jump did not wake
    int idle_jumps;        // consecutive time jumps without any such progress (polling loops going round)
    size_t nev;
    uint32_t cells_hi;
    int live;
    void (*fatal_cb)(const char*, const char*);
    // watchdog (real time; fires only when the process makes no progress at all)
    volatile uint64_t heartbeat;
    volatile int in_run;
    volatile uint64_t reports;     // sanitizer reports noted during this run
    unsigned watchdog_s;
    volatile long run_started;     // CLOCK_MONOTONIC seconds at run begin
};

Global g;
uint8_t g_dec[DEC_CAP];
Event g_ev[EV_CAP];
int64_t g_cells[RT_NCELLS];
uint64_t g_probes[RT_NPROBES];
thread_local int me = -1;
// a primitive called by a thread the scheduler does not know (e.g. the destructor of a moved-from thread
// argument, run by the real thread after its simulated end) passes straight through to the real object
#define on() (g.active && me >= 0)

inline long futex(int* addr, int op, int val) {
    return syscall(SYS_futex, addr, op, val, nullptr, nullptr, 0);
}
void park(int t) {
    while (__atomic_load_n(&g.th[t].gate, __ATOMIC_ACQUIRE) == 0)
        futex(&g.th[t].gate, FUTEX_WAIT_PRIVATE, 0);
    __atomic_store_n(&g.th[t].gate, 0, __ATOMIC_RELAXED);
}
void unpark(int t) {
    __atomic_store_n(&g.th[t].gate, 1, __ATOMIC_RELEASE);
    futex(&g.th[t].gate, FUTEX_WAKE_PRIVATE, 1);
}

inline void mix(uint32_t op, uint32_t ord) {
    g.st.sync_ops++;
    uint64_t w = uint64_t(uint32_t(me)) | (uint64_t(op) << 8) | (uint64_t(ord) << 16);
    g.st.fp = (g.st.fp ^ w) * 0x100000001b3ull;
    g.st.fp ^= g.st.fp >> 29;
}

uint32_t take(uint32_t n, uint32_t gen) {
    uint32_t v;
    if (g.replaying)
        // beyond the end of the list the default is 0 -- except in the fair phase of a long run, where
        // the (deterministic) least-recently-run choice applies in replays as well
        v = (g.ndec < g.nreplay ? g.replay[g.ndec] : gen) % n;
    else
        v = gen % n;
    if (g.ndec < DEC_CAP) g_dec[g.ndec] = uint8_t(v); else g.st.dec_overflow = 1;
    g.ndec++;
    g.st.decisions++;
    return v;
}

const char* stname(int s) {
    switch (s) {
    case S_RUN: return "run"; case S_MUTEX: return "mutex"; case S_CV: return "cv";
    case S_JOIN: return "join"; case S_SPIN: return "spin";
    case S_QUIESCE: return "quiesce"; case S_EXITED: return "exited"; case S_SLEEP: return "sleep";
    }
    return "?";
}

void describe(char* buf, size_t cap) {
    size_t o = 0;
    for (int t = 0; t < g.nth && o + 40 < cap; ++t) {
        Th& x = g.th[t];
        uint32_t ord = 0;
        if (x.state == S_MUTEX) ord = static_cast<const MutexSt*>(x.obj)->ord;
        if (x.state == S_CV) ord = static_cast<const CvSt*>(x.obj)->ord;
        if (x.state == S_SPIN) ord = static_cast<const AtomicSt*>(x.obj)->ord;
        if (x.state == S_JOIN) ord = uint32_t(x.join_target);
        o += size_t(snprintf(buf + o, cap - o, "T%d:%s(%u) ", t, stname(x.state), ord));
    }
}

int cv_waiters(const void* cv, int* out) {
    // FIFO order by wait_seq; cv == nullptr: waiters of any cv
    int n = 0;
    for (int t = 0; t < g.nth; ++t)
        if (g.th[t].state == S_CV && (cv == nullptr || g.th[t].obj == cv))
            out[n++] = t;
    for (int i = 1; i < n; ++i)
        for (int j = i; j > 0 && g.th[out[j]].wait_seq < g.th[out[j - 1]].wait_seq; --j) {
            int x = out[j]; out[j] = out[j - 1]; out[j - 1] = x;
        }
    return n;
}

uint32_t pick(const int* cand, uint32_t n, bool me_en) {
    // Fair fallback: liveness is only owed under a fair scheduler.  A run that has used a quarter of
    // its step budget is continued least-recently-run-first, so that a correct busy-wait which the
    // spin heuristic does not recognise (e.g. polling two atomics in turn) cannot be starved into
    // the step bound by an unfair strategy; a genuine livelock still hits the bound.
    if (int64_t(g.st.steps) > g.cfg.step_bound / 4) {
        uint32_t best = 0;
        for (uint32_t i = 1; i < n; ++i)
            if (g.th[cand[i]].last_run < g.th[cand[best]].last_run) best = i;
        return best;
    }
    switch (g.cfg.strategy) {
    default:
    case STRAT_RANDOM:
        return g.rs.below(n);
    case STRAT_STICKY:
        if (me_en && g.rs.permille(uint32_t(g.cfg.param))) return 0;
        return me_en ? 1 + g.rs.below(n - 1) : g.rs.below(n);
    case STRAT_NONPREEMPT:
        return me_en ? 0 : g.rs.below(n);
    case STRAT_RR: {
        if (me_en && g.rr_left > 0) { g.rr_left--; return 0; }
        g.rr_left = g.cfg.param;
        // next tid cyclically after me
        uint32_t best = 0; int bestd = INT_MAX;
        for (uint32_t i = 0; i < n; ++i) {
            if (cand[i] == me) continue;
            int d = cand[i] - me; if (d < 0) d += MAXT;
            if (d < bestd) { bestd = d; best = i; }
        }
        return best;
    }
    case STRAT_PCT: {
        for (int i = 0; i < g.pct_nchange; ++i)
            if (int64_t(g.st.decisions) == g.pct_change[i] && me_en)
                g.th[me].prio = g.pct_low--;
        uint32_t best = 0;
        for (uint32_t i = 1; i < n; ++i)
            if (g.th[cand[i]].prio > g.th[cand[best]].prio) best = i;
        return best;
    }
    }
}

void deadlock() {
    char buf[2048];
    describe(buf, sizeof buf);
    rt_fatal("deadlock", buf);
}

// The scheduling point.  final_exit: the caller is exiting and must not park.
void schedule(bool final_exit = false) {
    g.st.steps++;
    g.heartbeat++;
    if (int64_t(g.st.steps) > g.cfg.step_bound) {
        char buf[2048];
        describe(buf, sizeof buf);
        rt_fatal("step_bound", buf);
    }
    // fault: spurious wake-up of a condition-variable waiter
    if (g.spurious_left > 0) {
        int w[MAXT];
        int nw = cv_waiters(nullptr, w);
        if (nw > 0) {
            uint32_t gen = 0;
            if (!g.replaying && g.rf.permille(uint32_t(g.cfg.spurious_permille)))
                gen = 1 + g.rf.below(uint32_t(nw));
            uint32_t d = take(uint32_t(nw) + 1, gen);
            if (d > 0) {
                g.th[w[d - 1]].state = S_RUN;
                g.spurious_left--;
                g.st.f_spurious++;
            }
        }
    }
    if (int64_t(g.st.steps) > g.cfg.step_bound / 4)
        for (int t = 0; t < g.nth; ++t)
            if (g.th[t].state == S_SPIN) g.th[t].state = S_RUN;     // fair phase: presumptions are dropped
    int cand[MAXT];
    uint32_t n = 0;
    bool me_en = g.th[me].state == S_RUN;
    if (me_en) cand[n++] = me;
    for (int t = 0; t < g.nth; ++t)
        if (t != me && g.th[t].state == S_RUN) cand[n++] = t;
    if (n == 0) {
        // nobody can run: threads parked by the spin heuristic are only
        // *presumed* blocked -- let them look again (a true spinner then
        // burns steps until the step bound reports the livelock).
        for (int t = 0; t < g.nth; ++t)
            if (g.th[t].state == S_SPIN) { g.th[t].state = S_RUN; }
        me_en = g.th[me].state == S_RUN;
        if (me_en) cand[n++] = me;
        for (int t = 0; t < g.nth; ++t)
            if (t != me && g.th[t].state == S_RUN) cand[n++] = t;
    }
    if (n == 0) {
        // nobody can run: simulated time jumps to the earliest deadline -- every thread in a timed wait
        // or a sleep times out (tlx itself has no timed waits; this keeps the simulator honest for
        // code that introduces one)
        // A thread awaiting quiescence is released instead once the timed waiters have gone round three
        // times without anything else happening: a loop that polls a predicate with wait_for() is at rest.
        if (g.progress) { g.idle_jumps = 0; g.progress = false; }
        else g.idle_jumps++;
        bool quiescer = false;
        for (int t = 0; t < g.nth; ++t) quiescer |= g.th[t].state == S_QUIESCE;
        if (!(quiescer && g.idle_jumps >= 3)) {
            for (int t = 0; t < g.nth; ++t) {
                g.th[t].in_jump = false;
                if ((g.th[t].state == S_CV || g.th[t].state == S_SLEEP) && g.th[t].timed) {
                    g.th[t].state = S_RUN; g.th[t].timed_out = true; g.th[t].in_jump = true; g.st.f_timeout++;
                    if (t == me) me_en = true;
                }
            }
        }
        if (g.th[me].state == S_RUN) cand[n++] = me;
        for (int t = 0; t < g.nth; ++t)
            if (t != me && g.th[t].state == S_RUN) cand[n++] = t;
    }
    if (n == 0) {
        for (int t = 0; t < g.nth; ++t)
            if (g.th[t].state == S_QUIESCE) { g.th[t].state = S_RUN; cand[n++] = t; }
        me_en = false;
    }
    if (n == 0) deadlock();
    uint32_t idx = 0;
    if (n > 1) {
        const bool fair_phase = int64_t(g.st.steps) > g.cfg.step_bound / 4;
        idx = take(n, (g.replaying && !fair_phase) ? 0 : pick(cand, n, me_en));
    }
    int next = cand[idx];
    if (!g.th[next].in_jump) g.progress = true;
    g.th[next].last_run = g.st.steps;
    if (me_en && next != me) g.st.preempts++;
    if (next == me) return;
    unpark(next);
    if (!final_exit) park(me);
}

inline void after(uint32_t op, uint32_t ord) { mix(op, ord); schedule(); }

inline void reset_spin(Th& t) { t.last_load = nullptr; t.same_loads = 0; }

void wake_mutex_waiters(const MutexSt* m) {
    for (int t = 0; t < g.nth; ++t)
        if (g.th[t].state == S_MUTEX && g.th[t].obj == m) g.th[t].state = S_RUN;
}

void acquire(MutexSt* m) {
    Th& t = g.th[me];
    bool contended = false;
    while (m->owner != -1) {
        // a std::mutex locked again by its owner: undefined behaviour, in practice the thread waits for itself
        if (m->owner == me) {
            char buf[2048];
            describe(buf, sizeof buf);
            rt_fatal("deadlock", (std::string("a thread locks a mutex it already holds (self-deadlock); ") + buf).c_str());
        }
        contended = true;
        t.state = S_MUTEX; t.obj = m;
        schedule();
    }
    if (contended) g.st.p_mutex_contended++;
    m->owner = me;
}

uint32_t new_ord() { return g.active ? g.next_ord++ : 0x40000000u + g.static_ord++; }

} // namespace

// ---------------------------------------------------------------------------

void rt_set_fatal(void (*cb)(const char*, const char*)) { g.fatal_cb = cb; }

void rt_fatal(const char* cls, const char* detail) {
    if (g.fatal_cb) g.fatal_cb(cls, detail);
    fprintf(stderr, "sim fatal: %s: %s\n", cls, detail);
    _exit(70);
}

bool rt_active() { return g.active; }
int rt_tid() { return me; }

void rt_run_begin(const SimCfg& cfg, uint64_t seed, const uint8_t* replay, size_t nreplay) {
    if (g.active) rt_fatal("machinery", "run_begin while active");
    g.cfg = cfg;
    memset(g.th, 0, sizeof(Th) * size_t(g.nth > 0 ? g.nth : 1));
    g.nth = 1;
    me = 0;
    g.th[0].state = S_RUN;
    g.th[0].prio = 1 << 20;
    g.rs.seed(seed ^ 0x5c4ed01eull);
    g.rf.seed(seed ^ 0xfa0175ull);
    g.replaying = replay != nullptr;
    g.replay = replay; g.nreplay = nreplay;
    g.ndec = 0; g.wait_seq = 0; g.next_ord = 1;
    memset(&g.st, 0, sizeof g.st);
    g.st.fp = 0xcbf29ce484222325ull;
    g.st.threads = 1; g.live = 1; g.st.max_live_threads = 1;
    g.spurious_left = cfg.spurious_budget;
    g.pct_nchange = 0; g.pct_low = 0;
    if (cfg.strategy == STRAT_PCT) {
        int d = int(cfg.param); if (d > 8) d = 8; if (d < 0) d = 0;
        g.pct_nchange = d;
        uint32_t k = uint32_t(cfg.pct_k > 1 ? cfg.pct_k : 1);
        for (int i = 0; i < d; ++i) g.pct_change[i] = 1 + g.rs.below(k);
        g.pct_low = -1;
    }
    g.rr_left = cfg.param;
    g.rng_ctr = 0;
    g.progress = true; g.idle_jumps = 0;
    g.nev = 0;
    if (g.cells_hi) memset(g_cells, 0, sizeof(int64_t) * g.cells_hi);
    g.cells_hi = 0;
    memset(g_probes, 0, sizeof g_probes);
    rt_named_probes_reset();
    g.active = true;
}

void rt_thread_detach(int tid) { if (g.active && tid > 0 && tid < g.nth) g.th[tid].detached = true; }
bool rt_run_end(Stats* out) {
    // detached threads are waited for (as a process would at exit, had it cared)
    for (int t = 1; t < g.nth; ++t)
        if (g.th[t].detached && g.th[t].state != S_EXITED) rt_thread_join(t);
    bool clean = true;
    for (int t = 1; t < g.nth; ++t)
        if (g.th[t].state != S_EXITED) clean = false;
    g.active = false;
    if (out) *out = g.st;
    return clean;
}

void rt_stats(Stats* out) { *out = g.st; }
const uint8_t* rt_decisions(size_t* n) { *n = g.ndec < DEC_CAP ? g.ndec : DEC_CAP; return g_dec; }

// ---- mutex ------------------------------------------------------------------
void rt_mutex_init(MutexSt* m) { m->owner = -1; m->ord = new_ord(); }
void rt_mutex_lock(MutexSt* m) {
    if (!on()) return;
    reset_spin(g.th[me]);
    acquire(m);
}
void rt_mutex_locked(MutexSt* m) { if (on()) after(OP_LOCK, m->ord); }
bool rt_mutex_trylock(MutexSt* m) {
    if (!on()) return true;
    reset_spin(g.th[me]);
    if (m->owner != -1) return false;
    m->owner = me;
    return true;
}
void rt_mutex_tried(MutexSt* m, bool ok) {
    if (on()) after(ok ? OP_TRYLOCK_OK : OP_TRYLOCK_FAIL, m->ord);
}
void rt_mutex_unlock(MutexSt* m) {
    if (!on()) return;
    reset_spin(g.th[me]);
    if (m->owner != me) rt_fatal("machinery", "unlock of a mutex not owned");
    m->owner = -1;
    wake_mutex_waiters(m);
    after(OP_UNLOCK, m->ord);
}

// ---- condition variable -----------------------------------------------------
void rt_cv_init(CvSt* c) { c->ord = new_ord(); c->pad = 0; }
void rt_cv_wait(CvSt* c, MutexSt* m) {
    if (!on()) rt_fatal("machinery", "cv wait outside a simulated run");
    Th& t = g.th[me];
    reset_spin(t);
    if (m->owner != me) rt_fatal("machinery", "cv wait without owning the mutex");
    // atomically: release the mutex and join the waiter set
    m->owner = -1;
    wake_mutex_waiters(m);
    t.state = S_CV; t.obj = c; t.wait_seq = ++g.wait_seq;
    g.st.p_cv_wait++;
    mix(OP_CVWAIT, c->ord);
    schedule();
    mix(OP_CVWOKEN, c->ord);
    acquire(m);
}
void rt_cv_waited(CvSt* c) { if (on()) after(OP_LOCK, c->ord); }
// wait with a timeout: like rt_cv_wait, but the thread may also be resumed by the passage of
// simulated time (when nothing else can run, or as a seeded early timeout).  Returns true if it timed out.
bool rt_cv_wait_timed(CvSt* c, MutexSt* m) {
    Th& t = g.th[me];
    t.timed = true; t.timed_out = false;
    rt_cv_wait(c, m);
    bool r = t.timed_out;
    t.timed = false; t.timed_out = false;
    return r;
}
void rt_sleep() {
    if (!on()) return;
    Th& t = g.th[me];
    reset_spin(t);
    // a sleep ends when simulated time has passed: either at once (seeded) or when nobody else can run
    if (rt_choice(2, 500) == 0) { t.state = S_SLEEP; t.timed = true; }
    after(OP_YIELD, 1);
    t.timed = false; t.timed_out = false;
}
void rt_cv_notify(CvSt* c, bool all) {
    if (!on()) return;
    reset_spin(g.th[me]);
    g.progress = true;
    int w[MAXT];
    int nw = cv_waiters(c, w);
    if (nw == 0) g.st.p_notify_empty++;
    else if (all) { for (int i = 0; i < nw; ++i) g.th[w[i]].state = S_RUN; }
    else {
        uint32_t idx = 0;
        if (nw > 1) {
            g.st.p_notify_multi++;
            uint32_t gen = (!g.replaying && g.cfg.notify_choice) ? g.rf.below(uint32_t(nw)) : 0;
            idx = take(uint32_t(nw), gen);
            if (idx != 0) g.st.f_notify_choice++;
        }
        g.th[w[idx]].state = S_RUN;
    }
    after(all ? OP_NOTIFY_ALL : OP_NOTIFY_ONE, c->ord);
}

// ---- atomics ----------------------------------------------------------------
void rt_atomic_init(AtomicSt* a) { a->ord = new_ord(); a->pad = 0; }   // pad: number of writes so far
void rt_atomic_loaded(AtomicSt* a, uint64_t v) {
    if (!on()) return;
    Th& t = g.th[me];
    if (t.last_load == a && t.last_val == v) t.same_loads++;
    else { t.last_load = a; t.last_val = v; t.same_loads = 1; }
    t.last_wseq = a->pad;
    mix(OP_ALOAD, a->ord);
    if (t.same_loads >= 3) {
        // busy-wait heuristic: presume blocked until someone writes `a`
        t.same_loads = 0;
        t.state = S_SPIN; t.obj = a;
        g.st.p_spin_block++;
    }
    schedule();
}
void rt_atomic_written(AtomicSt* a, bool rmw) {
    if (!on()) return;
    g.progress = true;
    reset_spin(g.th[me]);
    a->pad++;
    for (int t = 0; t < g.nth; ++t)
        if (g.th[t].state == S_SPIN && g.th[t].obj == a) g.th[t].state = S_RUN;
    after(rmw ? OP_ARMW : OP_ASTORE, a->ord);
}

// ---- threads ----------------------------------------------------------------
int rt_thread_create() {
    if (!on()) rt_fatal("machinery", "thread created outside a simulated run");
    if (g.nth >= MAXT) rt_fatal("machinery", "too many simulated threads");
    reset_spin(g.th[me]);
    int tid = g.nth++;
    Th& t = g.th[tid];
    memset(&t, 0, sizeof t);
    t.state = S_RUN;
    // PCT: random initial priority above all change-point priorities
    t.prio = 1 + int64_t(g.rs.below(1u << 20));
    g.st.threads++; g.live++;
    if (uint64_t(g.live) > g.st.max_live_threads) g.st.max_live_threads = uint64_t(g.live);
    return tid;
}
void rt_thread_created(int tid) { after(OP_TCREATE, uint32_t(tid)); }
void rt_thread_begin(int tid) {
    me = tid;
    park(tid);
    mix(OP_TBEGIN, uint32_t(tid));
}
void rt_thread_end(int tid) {
    Th& t = g.th[tid];
    t.state = S_EXITED;
    g.live--;
    g.progress = true;
    for (int j = 0; j < g.nth; ++j)
        if (g.th[j].state == S_JOIN && g.th[j].join_target == tid) g.th[j].state = S_RUN;
    mix(OP_TEXIT, uint32_t(tid));
    schedule(true);
    me = -1;
}
void rt_thread_join(int tid) {
    if (!on()) rt_fatal("machinery", "join outside a simulated run");
    Th& t = g.th[me];
    reset_spin(t);
    while (g.th[tid].state != S_EXITED) {
        t.state = S_JOIN; t.join_target = tid;
        schedule();
    }
}
void rt_thread_joined(int tid) { after(OP_TJOIN, uint32_t(tid)); }

void rt_yield() {
    if (!on()) return;
    Th& t = g.th[me];
    g.st.p_yield++;
    if (g.cfg.strategy == STRAT_PCT) t.prio = g.pct_low--;
    if (t.last_load != nullptr && static_cast<const AtomicSt*>(t.last_load)->pad == t.last_wseq) {
        // yield inside a polling loop: presume blocked on the polled atomic -- unless it has been
        // written since this thread looked (then the next look sees the new value)
        t.state = S_SPIN; t.obj = t.last_load;
        t.same_loads = 0;
        g.st.p_spin_block++;
    }
    after(OP_YIELD, 0);
}
void rt_point() { if (on()) { reset_spin(g.th[me]); after(OP_POINT, 0); } }
void rt_await_quiescence() {
    if (!on()) return;
    reset_spin(g.th[me]);
    g.st.p_quiesce++;
    g.th[me].state = S_QUIESCE;
    mix(OP_QUIESCE, 0);
    schedule();
}
int rt_blocked_count() {
    int n = 0;
    for (int t = 0; t < g.nth; ++t)
        if (t != me && g.th[t].state != S_EXITED) n++;
    return n;
}
unsigned rt_hw_concurrency() {
    return g.active && g.cfg.hw_concurrency > 0 ? unsigned(g.cfg.hw_concurrency) : 1u;
}
uint64_t rt_next_rng_seed() {
    uint64_t x = uint64_t(g.cfg.rng_seed) + 0x9e3779b97f4a7c15ull * (++g.rng_ctr);
    return Xo::sm(x);
}
bool rt_rng_degenerate() { return g.active && g.cfg.rng_degenerate != 0; }

// ---- environment decisions ----------------------------------------------------
uint32_t rt_choice(uint32_t n, uint32_t permille) {
    if (!on() || n <= 1) return 0;
    uint32_t gen = 0;
    if (!g.replaying && g.rf.permille(permille)) gen = 1 + g.rf.below(n - 1);
    return take(n, gen);
}
void rt_note(uint32_t op, uint32_t v) { if (on()) { g.heartbeat++; mix(op, v); } }
void rt_count_alloc(bool recycled, bool quarantined) {
    if (recycled) g.st.f_alloc_recycle++;
    if (quarantined) g.st.f_alloc_quarantined++;
}

// ---- history / ledgers ------------------------------------------------------
uint64_t rt_event(uint32_t kind, int64_t a, int64_t b) {
    g.heartbeat++;
    g.progress = true;
    if (g.nev >= EV_CAP) rt_fatal("machinery", "event log overflow");
    Event& e = g_ev[g.nev];
    e.seq = g.nev; e.tid = me; e.kind = kind; e.a = a; e.b = b;
    return g.nev++;
}
const Event* rt_events(size_t* n) { *n = g.nev; return g_ev; }
int64_t rt_cell_add(uint32_t idx, int64_t d) {
    g.heartbeat++;
    if (idx >= RT_NCELLS) rt_fatal("machinery", "cell index out of range");
    if (idx >= g.cells_hi) g.cells_hi = idx + 1;
    return g_cells[idx] += d;
}
int64_t rt_cell_get(uint32_t idx) { return idx < RT_NCELLS ? g_cells[idx] : 0; }
void rt_cell_set(uint32_t idx, int64_t v) {
    if (idx >= RT_NCELLS) rt_fatal("machinery", "cell index out of range");
    if (idx >= g.cells_hi) g.cells_hi = idx + 1;
    g_cells[idx] = v;
}
namespace {
void* watchdog_main(void*) {
    uint64_t last = g.heartbeat;
    unsigned idle = 0;
    for (;;) {
        struct timespec ts = {1, 0};
        nanosleep(&ts, nullptr);
        struct timespec now;
        clock_gettime(CLOCK_MONOTONIC, &now);
        // hard limit per run: an endless loop that keeps touching the ledger
        // has a heartbeat but never ends
        bool overdue = g.in_run && (now.tv_sec - g.run_started) >= long(g.watchdog_s);
        if (!overdue && (!g.in_run || g.heartbeat != last)) { last = g.heartbeat; idle = 0; continue; }
        if (overdue || ++idle >= g.watchdog_s) {
            char buf[2048];
            buf[0] = 0;
            if (g.active) describe(buf, sizeof buf);
            rt_fatal("hang_wallclock", buf);
        }
    }
    return nullptr;
}
} // namespace
void rt_start_watchdog(unsigned seconds) {
    if (g.watchdog_s || seconds == 0) return;
    g.watchdog_s = seconds;
    pthread_t t;
    pthread_create(&t, nullptr, watchdog_main, nullptr);
    pthread_detach(t);
}
void rt_set_in_run(bool on) {
    if (on) {
        struct timespec now;
        clock_gettime(CLOCK_MONOTONIC, &now);
        g.run_started = now.tv_sec;
        g.reports = 0;
    }
    g.in_run = on ? 1 : 0;
    g.heartbeat++;
}
void rt_note_report() { g.reports++; }
uint64_t rt_report_count() { return g.reports; }

void rt_ledger_reset() {
    if (g.cells_hi) memset(g_cells, 0, sizeof(int64_t) * g.cells_hi);
    g.cells_hi = 0;
    g.nev = 0;
    memset(g_probes, 0, sizeof g_probes);
}
// ---- named reach probes: the TLX_VERIF_PROBE hooks inside /repo ---------------
namespace {
constexpr int NP_CAP = 160;
const char* np_name[NP_CAP];
uint64_t np_count[NP_CAP];
int np_n;
} // namespace
int rt_named_probes(const char** names, uint64_t* counts, int cap) {
    int n = np_n < cap ? np_n : cap;
    for (int i = 0; i < n; ++i) { names[i] = np_name[i]; counts[i] = np_count[i]; }
    return n;
}
void rt_named_probes_reset() { for (int i = 0; i < np_n; ++i) np_count[i] = 0; }
} // namespace sim

// never a scheduling point, never influences a verdict
extern "C" __attribute__((visibility("default"))) void tlx_verif_probe(const char* name) {
    using namespace sim;
    for (int i = 0; i < np_n; ++i)
        if (np_name[i] == name) { np_count[i]++; return; }
    for (int i = 0; i < np_n; ++i)
        if (strcmp(np_name[i], name) == 0) { np_count[i]++; return; }
    if (np_n < NP_CAP) { np_name[np_n] = name; np_count[np_n] = 1; np_n++; }
}

namespace sim {
void rt_probe(uint32_t idx) { if (idx < RT_NPROBES) g_probes[idx]++; }
uint64_t rt_probe_get(uint32_t idx) { return idx < RT_NPROBES ? g_probes[idx] : 0; }

} // namespace sim
