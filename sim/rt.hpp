// sim/rt.hpp -- interface of the simulator runtime (sim/rt.cpp).
//
// rt.cpp is compiled WITHOUT any sanitizer and uses only raw futexes, static
// arrays and the intrusive *St structs below, so that under -fsanitize=thread
// the hand-over between simulated threads adds no happens-before edge and the
// simulator's own bookkeeping is invisible to TSan (DESIGN.md 3.4).
//
// Rule: code in headers (which is compiled into instrumented TUs) never reads
// or writes the fields of MutexSt/CvSt/AtomicSt; only rt.cpp does.
#ifndef VERIF_SIM_RT_HPP
#define VERIF_SIM_RT_HPP

#include <cstddef>
#include <cstdint>

namespace sim {

struct MutexSt { int32_t owner; uint32_t ord; };
struct CvSt { uint32_t ord; uint32_t pad; };
struct AtomicSt { uint32_t ord; uint32_t pad; };

enum Op : uint32_t {
    OP_POINT = 1, OP_LOCK, OP_TRYLOCK_OK, OP_TRYLOCK_FAIL, OP_UNLOCK,
    OP_CVWAIT, OP_CVWOKEN, OP_NOTIFY_ONE, OP_NOTIFY_ALL,
    OP_ALOAD, OP_ASTORE, OP_ARMW,
    OP_TCREATE, OP_TBEGIN, OP_TJOIN, OP_TEXIT, OP_YIELD, OP_QUIESCE
};

enum Strategy : int {
    STRAT_RANDOM = 0, STRAT_STICKY = 1, STRAT_PCT = 2, STRAT_RR = 3,
    STRAT_NONPREEMPT = 4
};

// Simulator configuration of one run.  Everything that influences which
// decisions are *consumed* (as opposed to how they are generated) is part of
// the replay file.
struct SimCfg {
    int64_t strategy;        // Strategy (random mode only)
    int64_t param;           // sticky: stay-permille; rr: quantum; pct: depth d
    int64_t pct_k;           // pct: estimated number of decisions
    int64_t spurious_permille; // probability of a spurious wake per point with waiters
    int64_t spurious_budget; // max number of spurious wake-ups per run (0 = off)
    int64_t notify_choice;   // 1: notify_one wakes a seeded waiter, 0: FIFO
    int64_t hw_concurrency;  // value of std::thread::hardware_concurrency()
    int64_t rng_seed;        // seed material for tlx::std::minstd_rand
    int64_t step_bound;      // bounded-liveness budget in scheduler steps
    int64_t rng_degenerate;  // 1: minstd_rand shim returns a constant stream
};
constexpr int SIMCFG_N = 10;

struct Event { uint64_t seq; int32_t tid; uint32_t kind; int64_t a; int64_t b; };

struct Stats {
    uint64_t steps, decisions, preempts, sync_ops, fp;
    uint64_t threads, max_live_threads;
    uint64_t f_spurious, f_notify_choice, f_barging, f_alloc_recycle, f_alloc_quarantined, f_timeout;
    uint64_t p_mutex_contended, p_notify_empty, p_spin_block, p_cv_wait,
        p_notify_multi, p_yield, p_quiesce;
    uint64_t dec_overflow;
};

// ---- lifecycle (controller thread = T0) ------------------------------------
// seed: seeds the schedule and fault streams.  replay != nullptr: decisions
// are taken from replay[0..nreplay) (then 0), no stream is used.
void rt_run_begin(const SimCfg& cfg, uint64_t seed, const uint8_t* replay,
                  size_t nreplay);
// returns false if some simulated thread other than T0 has not exited
bool rt_run_end(Stats* out);
bool rt_active();
void rt_stats(Stats* out);
const uint8_t* rt_decisions(size_t* n);
// callback invoked (in whatever thread) when the simulator detects a fatal
// condition (deadlock, step bound).  It must not return.
void rt_set_fatal(void (*cb)(const char* cls, const char* detail));
void rt_fatal(const char* cls, const char* detail);
int rt_tid();
// real-time watchdog thread: if a run makes no progress (no scheduler step, no
// ledger activity) for `seconds`, rt_fatal("hang_wallclock") is raised
void rt_start_watchdog(unsigned seconds);
void rt_set_in_run(bool on);
// sanitizer reports that do not halt (TSan): noted here, checked at run end
void rt_note_report();
uint64_t rt_report_count();

// ---- primitives used by the shim -------------------------------------------
void rt_mutex_init(MutexSt*);
void rt_mutex_lock(MutexSt*);      // blocks (simulated) until granted
void rt_mutex_locked(MutexSt*);    // scheduling point after the real lock
bool rt_mutex_trylock(MutexSt*);   // grants or refuses, no point
void rt_mutex_tried(MutexSt*, bool ok); // scheduling point after try_lock
void rt_mutex_unlock(MutexSt*);    // release + scheduling point

void rt_cv_init(CvSt*);
void rt_cv_wait(CvSt*, MutexSt*);  // atomically release+sleep; re-acquire
void rt_cv_waited(CvSt*);          // scheduling point after the real re-lock
bool rt_cv_wait_timed(CvSt*, MutexSt*); // wait_for / wait_until: true = timed out (simulated time)
void rt_sleep();                   // this_thread::sleep_for / sleep_until
void rt_cv_notify(CvSt*, bool all);

void rt_atomic_init(AtomicSt*);
void rt_atomic_loaded(AtomicSt*, uint64_t value_bits);
void rt_atomic_written(AtomicSt*, bool rmw);

int rt_thread_create();            // by the creator, before the real create
void rt_thread_created(int tid);   // scheduling point after the real create
void rt_thread_begin(int tid);     // first action of the new thread: park
void rt_thread_end(int tid);       // last action: hand over, never parks
void rt_thread_join(int tid);      // blocks (simulated) until tid has exited
void rt_thread_joined(int tid);    // scheduling point after the real join
void rt_thread_detach(int tid);    // std::thread::detach(): joined by the controller at the end of the run
void rt_yield();
void rt_point();                   // explicit scheduling point
void rt_await_quiescence();        // T0 only: returns when nobody else can run
int rt_blocked_count();            // threads (other than caller) not exited
unsigned rt_hw_concurrency();
uint64_t rt_next_rng_seed();       // per-run deterministic seeds for RNG shims
bool rt_rng_degenerate();

// ---- environment decisions (allocator seam) and single-task fingerprints ------
// a seeded decision in [0, n): 0 is the default; random mode draws a non-zero
// value with probability permille/1000.  Recorded in the decision list, so it
// replays and shrinks like a scheduling decision.
uint32_t rt_choice(uint32_t n, uint32_t permille);
void rt_note(uint32_t op, uint32_t v);           // mix an (operation, outcome) pair into the fingerprint
void rt_count_alloc(bool recycled, bool quarantined);

// ---- history / ledgers kept outside sanitizer view -------------------------
uint64_t rt_event(uint32_t kind, int64_t a, int64_t b);
const Event* rt_events(size_t* n);
int64_t rt_cell_add(uint32_t idx, int64_t d);   // returns the new value
int64_t rt_cell_get(uint32_t idx);
void rt_cell_set(uint32_t idx, int64_t v);
constexpr uint32_t RT_NCELLS = 1u << 20;
void rt_ledger_reset();                          // single-task harnesses (no rt_run_begin)
void rt_probe(uint32_t idx);                     // reach probes (counted)
uint64_t rt_probe_get(uint32_t idx);
constexpr uint32_t RT_NPROBES = 64;
// counts of the TLX_VERIF_PROBE("name") hooks of /repo reached in this run
int rt_named_probes(const char** names, uint64_t* counts, int cap);
void rt_named_probes_reset();

} // namespace sim

#endif
