// sim/tracked.hpp -- lifetime-ledgered element type.  Every instance owns a
// small heap block (so that a leaked or doubly destroyed instance is also a
// leaked / doubly freed block under ASan) and is registered in the runtime's
// ledger cells, which live outside sanitizer view and are safe to update from
// any simulated thread.
#ifndef VERIF_SIM_TRACKED_HPP
#define VERIF_SIM_TRACKED_HPP

#include "rt.hpp"

namespace sim {

enum : uint32_t {
    TC_LIVE = 2, TC_ERR_DESTROY = 3, TC_ERR_USE = 4, TC_NEXT = 5, TC_CONSTRUCTED = 6, TC_DESTROYED = 7,
    TC_BASE = 4096
};

struct Tracked {
    int key;
    int idx;
    int* heap;
    uint32_t id;
    uint32_t magic;
    static constexpr uint32_t ALIVE = 0x7ac3d001u, DEAD = 0xdeadbeefu;

    Tracked() : key(0), idx(-1) { born(); }
    Tracked(int k, int i) : key(k), idx(i) { born(); }
    Tracked(const Tracked& o) : key(o.key), idx(o.idx) { o.use(); born(); }
    // moves really move: the source stays alive (it must still be destroyed) but its value is gone,
    // like a moved-from std::string -- reading a moved-from slot as if it still held the value shows
    Tracked(Tracked&& o) noexcept : key(o.key), idx(o.idx) { o.use(); born(); o.moved_from(); }
    Tracked& operator=(const Tracked& o) {
        use(); o.use();
        key = o.key; idx = o.idx; *heap = o.key;
        return *this;
    }
    Tracked& operator=(Tracked&& o) noexcept {
        use(); o.use();
        key = o.key; idx = o.idx; *heap = o.key;
        if (this != &o) o.moved_from();
        return *this;
    }
    static constexpr int MOVED_FROM = -777;
    void moved_from() { key = MOVED_FROM; idx = MOVED_FROM; if (heap) *heap = MOVED_FROM; }
    ~Tracked() {
        if (magic != ALIVE || id == 0 || TC_BASE + id >= RT_NCELLS || rt_cell_get(TC_BASE + id) != 1) {
            rt_cell_add(TC_ERR_DESTROY, 1);
            return;
        }
        rt_cell_set(TC_BASE + id, 2);
        rt_cell_add(TC_LIVE, -1);
        rt_cell_add(TC_DESTROYED, 1);
        delete heap;
        heap = nullptr;
        magic = DEAD;
    }
    void use() const {
        if (magic != ALIVE || id == 0 || TC_BASE + id >= RT_NCELLS || rt_cell_get(TC_BASE + id) != 1 || *heap != key)
            rt_cell_add(TC_ERR_USE, 1);
    }
    int k() const { use(); return key; }

private:
    void born() {
        id = uint32_t(rt_cell_add(TC_NEXT, 1));
        if (TC_BASE + id < RT_NCELLS) rt_cell_set(TC_BASE + id, 1);
        rt_cell_add(TC_LIVE, 1);
        rt_cell_add(TC_CONSTRUCTED, 1);
        heap = new int(key);
        magic = ALIVE;
    }
};

// adversarial operator<: descending by key.  Every harness passes an explicit comparator; code under
// test that falls back to operator< shows at once.
inline bool operator<(const Tracked& a, const Tracked& b) { return a.k() > b.k(); }

inline int64_t tracked_live() { return rt_cell_get(TC_LIVE); }
inline int64_t tracked_err_destroy() { return rt_cell_get(TC_ERR_DESTROY); }
inline int64_t tracked_err_use() { return rt_cell_get(TC_ERR_USE); }

} // namespace sim

#endif
