// sim/alloc.hpp -- the allocator seam for the single-task harnesses: an
// allocator environment the simulator owns.  sim::Alloc<T> is passed as the
// Allocator template argument of the tlx containers.
//
// Faults / environment behaviour (all legal for an allocator):
//  alloc_recycle  a freed block of the same size is handed out again (LIFO),
//                 decided by a seeded, recorded decision -- stale pointers then
//                 alias live nodes;
//  alloc_poison   freed blocks are filled with 0xDD and kept in a quarantine of
//                 seeded length; the fill is verified when the block leaves it
//                 (write after free); under ASan the block is also poisoned so
//                 that reads are reported with a stack;
//  canaries       16 guard bytes before and after every block.
// Ledger: every deallocate must match a live allocate of the same size and
// type; at the end of the run no block may be live.
#ifndef VERIF_SIM_ALLOC_HPP
#define VERIF_SIM_ALLOC_HPP

#include <cstdlib>
#include <cstring>
#include <map>
#include <string>
#include <typeinfo>
#include <vector>

#include "rt.hpp"

#if defined(__SANITIZE_ADDRESS__)
#include <sanitizer/asan_interface.h>
#define SIM_POISON(p, n) ASAN_POISON_MEMORY_REGION(p, n)
#define SIM_UNPOISON(p, n) ASAN_UNPOISON_MEMORY_REGION(p, n)
#else
#define SIM_POISON(p, n) ((void)0)
#define SIM_UNPOISON(p, n) ((void)0)
#endif

namespace sim {

class AllocEnv {
public:
    static constexpr size_t GUARD = 16;
    struct Block { unsigned char* base; size_t bytes; size_t tag; int arena; };

    void reset(size_t quarantine_len, uint32_t recycle_permille) {
        release_all();
        qlen_ = quarantine_len; permille_ = recycle_permille;
        errors_.clear();
        n_alloc_ = n_free_ = n_recycled_ = 0;
    }
    void* allocate(size_t bytes, size_t tag, int arena = 0) {
        ++n_alloc_;
        Block b{nullptr, bytes, tag, arena};
        // most recent pooled block of exactly this size
        size_t cand = pool_.size();
        for (size_t i = pool_.size(); i-- > 0;) if (pool_[i].bytes == bytes) { cand = i; break; }
        if (cand != pool_.size() && rt_choice(2, permille_) == 1) {
            b.base = pool_[cand].base;
            pool_.erase(pool_.begin() + long(cand));
            SIM_UNPOISON(b.base, bytes + 2 * GUARD);
            ++n_recycled_;
            rt_count_alloc(true, false);
            rt_note(0x101, uint32_t(bytes));
        } else {
            b.base = static_cast<unsigned char*>(std::malloc(bytes + 2 * GUARD));
            rt_note(0x100, uint32_t(bytes));
        }
        std::memset(b.base, 0xA5, GUARD);
        std::memset(b.base + GUARD, 0xCD, bytes);
        std::memset(b.base + GUARD + bytes, 0x5A, GUARD);
        void* user = b.base + GUARD;
        live_[user] = b;
        return user;
    }
    void deallocate(void* p, size_t bytes, size_t tag, int arena = 0) {
        ++n_free_;
        auto it = live_.find(p);
        if (it == live_.end()) { error("deallocate of a block that is not live (double free or foreign pointer)"); return; }
        Block b = it->second;
        live_.erase(it);
        if (b.bytes != bytes) error("deallocate with size " + std::to_string(bytes) + " of a block allocated with size " + std::to_string(b.bytes));
        if (b.tag != tag) error("deallocate through an allocator of a different type than the one that allocated the block");
        if (b.arena != arena)
            error("block obtained from allocator instance #" + std::to_string(b.arena) + " was returned through instance #" + std::to_string(arena) +
                  ", which compares unequal to it");
        for (size_t i = 0; i < GUARD; ++i)
            if (b.base[i] != 0xA5 || b.base[GUARD + b.bytes + i] != 0x5A) { error("guard bytes around a block were overwritten"); break; }
        std::memset(b.base + GUARD, 0xDD, b.bytes);
        SIM_POISON(b.base, b.bytes + 2 * GUARD);
        quarantine_.push_back(b);
        rt_count_alloc(false, true);
        rt_note(0x102, uint32_t(bytes));
        while (quarantine_.size() > qlen_) {
            Block q = quarantine_.front();
            quarantine_.erase(quarantine_.begin());
            verify_poison(q);
            pool_.push_back(q);
        }
    }
    // end of run: nothing may be live; quarantined blocks must be untouched
    // leaks_are_errors: only where the property itself says that storage is returned (C02 nodes, splay
    // nodes); elsewhere a block that is never returned is counted (leaked_blocks()), not judged
    void finish(bool leaks_are_errors = true) {
        leaked_ = live_.size();
        if (!live_.empty() && leaks_are_errors) {
            size_t bytes = 0;
            for (auto& kv : live_) bytes += kv.second.bytes;
            error(std::to_string(live_.size()) + " block(s) (" + std::to_string(bytes) + " bytes) never returned to the allocator");
        }
        for (auto& q : quarantine_) verify_poison(q);
        for (auto& q : pool_) verify_poison(q);
        release_all();
    }
    const std::vector<std::string>& errors() const { return errors_; }
    size_t live_blocks() const { return live_.size(); }
    size_t leaked_blocks() const { return leaked_; }
    size_t allocations() const { return n_alloc_; }
    size_t recycled() const { return n_recycled_; }

private:
    size_t leaked_ = 0;
    void error(const std::string& e) { if (errors_.size() < 8) errors_.push_back(e); }
    void verify_poison(const Block& q) {
        SIM_UNPOISON(q.base, q.bytes + 2 * GUARD);
        for (size_t i = 0; i < q.bytes; ++i)
            if (q.base[GUARD + i] != 0xDD) { error("a released block was written to (offset " + std::to_string(i) + " of " + std::to_string(q.bytes) + ")"); break; }
        SIM_POISON(q.base, q.bytes + 2 * GUARD);
    }
    void release_all() {
        for (auto& kv : live_) std::free(kv.second.base);
        for (auto& q : quarantine_) { SIM_UNPOISON(q.base, q.bytes + 2 * GUARD); std::free(q.base); }
        for (auto& q : pool_) { SIM_UNPOISON(q.base, q.bytes + 2 * GUARD); std::free(q.base); }
        live_.clear(); quarantine_.clear(); pool_.clear();
    }
    std::map<void*, Block> live_;
    std::vector<Block> quarantine_, pool_;
    size_t qlen_ = 2;
    uint32_t permille_ = 500;
    std::vector<std::string> errors_;
    size_t n_alloc_ = 0, n_free_ = 0, n_recycled_ = 0;
};

inline AllocEnv& alloc_env() { static AllocEnv e; return e; }

// Stateful: instances carry an arena number and compare equal iff the numbers
// are equal (a conforming allocator may be like that). A block must go back
// through an instance equal to the one it came from.
template <class T>
struct Alloc {
    using value_type = T;
    using size_type = std::size_t;
    using difference_type = std::ptrdiff_t;
    int arena = 0;
    Alloc() noexcept = default;
    explicit Alloc(int a) noexcept : arena(a) {}
    template <class U> Alloc(const Alloc<U>& o) noexcept : arena(o.arena) {}  // NOLINT
    T* allocate(std::size_t n) { return static_cast<T*>(alloc_env().allocate(n * sizeof(T), typeid(T).hash_code(), arena)); }
    // (deallocate(nullptr, n) is tolerated like std::allocator tolerates it: no statement is about it)
    void deallocate(T* p, std::size_t n) noexcept { if (p) alloc_env().deallocate(p, n * sizeof(T), typeid(T).hash_code(), arena); }
    template <class U> struct rebind { using other = Alloc<U>; };
    template <class U> bool operator==(const Alloc<U>& o) const noexcept { return arena == o.arena; }
    template <class U> bool operator!=(const Alloc<U>& o) const noexcept { return arena != o.arena; }
};

} // namespace sim

#endif
