// sim/sim.hpp -- harness-side API of the simulator and the generic worker
// main loop (one simulated run after another, in-process; one JSON record per
// run on stdout).  Included by exactly one TU per harness binary.
#ifndef VERIF_SIM_SIM_HPP
#define VERIF_SIM_SIM_HPP

#include <sched.h>
#include <signal.h>
#include <unistd.h>

#include <cinttypes>
#include <cstdint>
#include <cstdio>
#include <cstdlib>
#include <cstring>
#include <exception>
#include <map>
#include <string>
#include <vector>

#include "rt.hpp"

extern "C" void __sanitizer_set_death_callback(void (*)(void)) __attribute__((weak));

namespace sim {

// ---- the one PRNG -----------------------------------------------------------
struct Rng {
    uint64_t s[4];
    static uint64_t sm(uint64_t& x) {
        uint64_t z = (x += 0x9e3779b97f4a7c15ull);
        z = (z ^ (z >> 30)) * 0xbf58476d1ce4e5b9ull;
        z = (z ^ (z >> 27)) * 0x94d049bb133111ebull;
        return z ^ (z >> 31);
    }
    explicit Rng(uint64_t seed) { for (auto& v : s) v = sm(seed); }
    static uint64_t rotl(uint64_t x, int k) { return (x << k) | (x >> (64 - k)); }
    uint64_t next() {
        uint64_t r = rotl(s[1] * 5, 7) * 9, t = s[1] << 17;
        s[2] ^= s[0]; s[3] ^= s[1]; s[1] ^= s[2]; s[0] ^= s[3];
        s[2] ^= t; s[3] = rotl(s[3], 45);
        return r;
    }
    // uniform in [0, n)
    uint64_t below(uint64_t n) { return n <= 1 ? 0 : (next() >> 11) % n; }
    // uniform in [lo, hi]
    int64_t range(int64_t lo, int64_t hi) { return lo + int64_t(below(uint64_t(hi - lo + 1))); }
    bool chance(uint32_t num, uint32_t den) { return below(den) < num; }
    template <class T, size_t N> T pick(const T (&a)[N]) { return a[below(N)]; }
};

inline uint64_t mix_seed(uint64_t base, const char* id, uint64_t idx) {
    uint64_t h = 0xcbf29ce484222325ull;
    for (const char* p = id; *p; ++p) h = (h ^ uint8_t(*p)) * 0x100000001b3ull;
    uint64_t x = base * 0x9e3779b97f4a7c15ull ^ h;
    x = Rng::sm(x) ^ (idx * 0xd1342543de82ef95ull);
    return Rng::sm(x);
}

// ---- workload: explicit, serialisable, shrinkable ---------------------------
// cfg: per-harness configuration integers; ops: the operation list (each op a
// small integer tuple, interpreted modulo what is valid at that moment so that
// any sub-list is still a valid workload); simv: SimCfg as integers.
struct Workload {
    std::vector<int64_t> cfg;
    std::vector<int64_t> simv;
    std::vector<std::vector<int64_t> > ops;
};

struct Result {
    bool ok = true;
    std::string cls, detail;
    std::map<std::string, uint64_t> probes;
    void fail(const std::string& c, const std::string& d) {
        if (ok) { ok = false; cls = c; detail = d; }
    }
    void probe(const char* name, uint64_t n = 1) { probes[name] += n; }
};

struct HarnessDef {
    const char* id;        // e.g. "C10"
    bool concurrent;       // runs under the scheduler
    unsigned watchdog_s;   // wall-clock watchdog per run (real hangs only)
    void (*generate)(Rng& plan, Workload& w, int tier);
    void (*execute)(const Workload& w, Result& r);
    void (*tune_sim)(Rng& plan, SimCfg& c); // optional
};

inline int64_t cfg_at(const Workload& w, size_t i, int64_t dflt = 0) {
    return i < w.cfg.size() ? w.cfg[i] : dflt;
}
// non-negative value modulo n
inline int64_t modn(int64_t v, int64_t n) { if (n <= 0) return 0; v %= n; return v < 0 ? v + n : v; }

// ---- convenience wrappers for harness code ----------------------------------
inline void point() { rt_point(); }
inline void await_quiescence() { rt_await_quiescence(); }
inline uint64_t event(uint32_t kind, int64_t a = 0, int64_t b = 0) { return rt_event(kind, a, b); }

// ---- worker implementation --------------------------------------------------
namespace detail {

struct WorkerState {
    const HarnessDef* h = nullptr;
    const Workload* w = nullptr;
    uint64_t idx = 0, seed = 0;
    bool full = false;
    bool in_run = false;
    const char* flavour = "plain";
};
inline WorkerState& ws() { static WorkerState s; return s; }

inline void json_str(std::string& o, const std::string& s) {
    o += '"';
    for (unsigned char c : s) {
        if (c == '"' || c == '\\') { o += '\\'; o += char(c); }
        else if (c < 0x20) { char b[8]; snprintf(b, sizeof b, "\\u%04x", c); o += b; }
        else o += char(c);
    }
    o += '"';
}
inline void json_ints(std::string& o, const std::vector<int64_t>& v) {
    o += '[';
    for (size_t i = 0; i < v.size(); ++i) { if (i) o += ','; o += std::to_string(v[i]); }
    o += ']';
}

inline void emit_record(bool ok, const std::string& cls, const std::string& det,
                        const std::map<std::string, uint64_t>* probes, bool force_full) {
    WorkerState& s = ws();
    Stats st; rt_stats(&st);
    std::string o;
    o.reserve(512);
    o += "{\"i\":" + std::to_string(s.idx) + ",\"seed\":\"" + std::to_string(s.seed) + "\"";
    o += ",\"ok\":"; o += ok ? "true" : "false";
    o += ",\"cls\":"; json_str(o, cls);
    o += ",\"detail\":"; json_str(o, det);
    char fp[32]; snprintf(fp, sizeof fp, "%016" PRIx64, st.fp);
    if (s.h->concurrent) {
        o += ",\"steps\":" + std::to_string(st.steps) + ",\"dec\":" + std::to_string(st.decisions) +
             ",\"pre\":" + std::to_string(st.preempts) + ",\"thr\":" + std::to_string(st.threads) +
             ",\"live\":" + std::to_string(st.max_live_threads) +
             ",\"sync\":" + std::to_string(st.sync_ops) + ",\"fp\":\"" + fp + "\"";
        o += ",\"f\":{\"spurious_wake\":" + std::to_string(st.f_spurious) +
             ",\"notify_choice\":" + std::to_string(st.f_notify_choice) +
             ",\"alloc_recycle\":" + std::to_string(st.f_alloc_recycle) +
             ",\"alloc_poison\":" + std::to_string(st.f_alloc_quarantined) + "}";
        o += ",\"rp\":{\"mutex_contended\":" + std::to_string(st.p_mutex_contended) +
             ",\"notify_empty\":" + std::to_string(st.p_notify_empty) +
             ",\"notify_multi\":" + std::to_string(st.p_notify_multi) +
             ",\"spin_block\":" + std::to_string(st.p_spin_block) +
             ",\"cv_wait\":" + std::to_string(st.p_cv_wait) +
             ",\"yield\":" + std::to_string(st.p_yield) +
             ",\"quiesce\":" + std::to_string(st.p_quiesce) + "}";
        if (st.dec_overflow) o += ",\"dec_overflow\":1";
    }
    if (s.w) {
        if (s.h->concurrent && s.w->simv.size() >= size_t(SIMCFG_N)) {
            o += ",\"strat\":" + std::to_string(s.w->simv[0]);
        }
    }
    if (probes && !probes->empty()) {
        o += ",\"p\":{";
        bool first = true;
        for (auto& kv : *probes) {
            if (!first) o += ',';
            first = false;
            json_str(o, kv.first); o += ':' + std::to_string(kv.second);
        }
        o += '}';
    }
    {
        const char* hn[160]; uint64_t hc[160];
        int n = rt_named_probes(hn, hc, 160);
        bool any = false;
        for (int i = 0; i < n; ++i) {
            if (!hc[i]) continue;
            o += any ? "," : ",\"hp\":{";
            any = true;
            json_str(o, hn[i]); o += ':' + std::to_string(hc[i]);
        }
        if (any) o += '}';
    }
    if ((s.full || force_full) && s.w) {
        o += ",\"cfg\":"; json_ints(o, s.w->cfg);
        o += ",\"sim\":"; json_ints(o, s.w->simv);
        o += ",\"ops\":[";
        for (size_t i = 0; i < s.w->ops.size(); ++i) { if (i) o += ','; json_ints(o, s.w->ops[i]); }
        o += "]";
        if (s.h->concurrent) {
            size_t n; const uint8_t* d = rt_decisions(&n);
            size_t nz = 0;
            for (size_t i = 0; i < n; ++i) nz += d[i] != 0;
            o += ",\"ndec\":" + std::to_string(n);
            if (nz > 200000) {
                // (a livelock / step-bound run: the list is huge; such a run is replayed from its decision seed)
                o += ",\"choices_omitted\":" + std::to_string(nz);
            } else {
                o += ",\"choices\":[";
                bool first = true;
                for (size_t i = 0; i < n; ++i)
                    if (d[i]) {
                        if (!first) o += ',';
                        first = false;
                        o += '[' + std::to_string(i) + ',' + std::to_string(unsigned(d[i])) + ']';
                    }
                o += "]";
            }
        }
    }
    o += "}\n";
    fwrite(o.data(), 1, o.size(), stdout);
    fflush(stdout);
}

inline void fatal_cb(const char* cls, const char* detail) {
    emit_record(false, cls, detail, nullptr, true);
    _exit(3);
}
inline void death_cb() {
    // a sanitizer is about to kill the process: leave the record (with the
    // full plan and decisions) so that the driver can gate, shrink and replay
    if (ws().in_run) emit_record(false, "sanitizer", "", nullptr, true);
}
inline void signal_cb(int sig) {
    static volatile int again = 0;
    if (again) _exit(79);
    again = 1;
    const char* n = sig == SIGSEGV ? "SIGSEGV" : sig == SIGABRT ? "SIGABRT" : sig == SIGBUS ? "SIGBUS"
                    : sig == SIGFPE ? "SIGFPE" : sig == SIGILL ? "SIGILL" : sig == SIGALRM ? "SIGALRM" : "SIG?";
    if (ws().in_run) {
        if (sig == SIGALRM) emit_record(false, "hang_wallclock", "watchdog expired", nullptr, true);
        else emit_record(false, std::string("crash:") + n, "", nullptr, true);
    }
    _exit(sig == SIGALRM ? 80 : 78);
}
inline void terminate_cb() {
    if (ws().in_run) emit_record(false, "crash:terminate", "std::terminate called", nullptr, true);
    _exit(78);
}

inline void default_simcfg(Rng& r, SimCfg& c) {
    memset(&c, 0, sizeof c);
    uint64_t k = r.below(100);
    if (k < 25) { c.strategy = STRAT_RANDOM; }
    else if (k < 55) { c.strategy = STRAT_STICKY; static const int64_t p[] = {500, 900, 990}; c.param = r.pick(p); }
    else if (k < 85) {
        c.strategy = STRAT_PCT; c.param = r.range(1, 3);
        // log-uniform estimate of the number of decisions
        double e = 3.0 + double(r.below(1000)) / 1000.0 * 6.0; // e^3 .. e^9
        double v = 1; for (int i = 0; i < int(e); ++i) v *= 2.718281828; c.pct_k = int64_t(v);
    }
    else if (k < 95) { c.strategy = STRAT_RR; c.param = r.range(1, 20); }
    else { c.strategy = STRAT_NONPREEMPT; }
    if (r.chance(1, 2)) {
        static const int64_t pm[] = {10, 100}; static const int64_t b[] = {1, 3, 10};
        c.spurious_permille = r.pick(pm); c.spurious_budget = r.pick(b);
    }
    c.notify_choice = r.chance(1, 2);
    static const int64_t hw[] = {1, 2, 3, 4, 5, 8};
    c.hw_concurrency = r.pick(hw);
    c.rng_seed = int64_t(r.next() >> 1);
    c.rng_degenerate = r.chance(1, 8);
    c.step_bound = 2000000;
}
inline void simcfg_to_vec(const SimCfg& c, std::vector<int64_t>& v) {
    v = {c.strategy, c.param, c.pct_k, c.spurious_permille, c.spurious_budget,
         c.notify_choice, c.hw_concurrency, c.rng_seed, c.step_bound, c.rng_degenerate};
}
inline void vec_to_simcfg(const std::vector<int64_t>& v, SimCfg& c) {
    memset(&c, 0, sizeof c);
    auto at = [&](size_t i, int64_t d) { return i < v.size() ? v[i] : d; };
    c.strategy = at(0, 0); c.param = at(1, 0); c.pct_k = at(2, 100);
    c.spurious_permille = at(3, 0); c.spurious_budget = at(4, 0);
    c.notify_choice = at(5, 0); c.hw_concurrency = at(6, 1); c.rng_seed = at(7, 1);
    c.step_bound = at(8, 2000000); c.rng_degenerate = at(9, 0);
    if (c.hw_concurrency < 1) c.hw_concurrency = 1;
    if (c.step_bound < 1000) c.step_bound = 1000;
}

inline void run_one(const HarnessDef& h, const Workload& w, uint64_t seed,
                    const std::vector<uint8_t>* replay) {
    WorkerState& s = ws();
    s.w = &w;
    Result r;
    s.in_run = true;
    rt_set_in_run(true);
    if (h.concurrent) {
        SimCfg c; vec_to_simcfg(w.simv, c);
        // (an empty list is a replay too -- all decisions default --, and an empty vector's data() may be null)
        static const uint8_t no_decisions = 0;
        rt_run_begin(c, seed, replay ? (replay->empty() ? &no_decisions : replay->data()) : nullptr, replay ? replay->size() : 0);
    } else {
        rt_ledger_reset();
    }
    try {
        h.execute(w, r);
    } catch (const std::exception& e) {
        r.fail("exception", e.what());
    }
    if (h.concurrent) {
        Stats st;
        if (!rt_run_end(&st)) r.fail("threads_alive", "simulated threads still alive at end of run");
    }
    rt_set_in_run(false);
    if (rt_report_count() > 0) {
        // a sanitizer printed a report during this run and did not halt (TSan)
        emit_record(false, "sanitizer", "", &r.probes, true);
        _exit(77);
    }
    if (!r.ok && r.cls == "threads_alive") {
        // parked real threads of this run cannot be unwound: do not reuse the process
        emit_record(false, r.cls, r.detail, &r.probes, true);
        _exit(3);
    }
    emit_record(r.ok, r.cls, r.detail, &r.probes, false);
    s.in_run = false;
    s.w = nullptr;
}

inline bool read_replay(const char* path, Workload& w, std::vector<uint8_t>& choices,
                        bool& has_seed, uint64_t& seed) {
    FILE* f = fopen(path, "r");
    if (!f) return false;
    char key[32];
    long long n, v;
    while (fscanf(f, "%31s", key) == 1) {
        if (!strcmp(key, "cfg") || !strcmp(key, "sim") || !strcmp(key, "op")) {
            if (fscanf(f, "%lld", &n) != 1) break;
            std::vector<int64_t> vec;
            for (long long i = 0; i < n; ++i) { if (fscanf(f, "%lld", &v) != 1) break; vec.push_back(v); }
            if (!strcmp(key, "cfg")) w.cfg = vec;
            else if (!strcmp(key, "sim")) w.simv = vec;
            else w.ops.push_back(vec);
        } else if (!strcmp(key, "seed")) {
            unsigned long long sv;
            if (fscanf(f, "%llu", &sv) != 1) break;
            has_seed = true; seed = sv;
        } else if (!strcmp(key, "choices")) {
            if (fscanf(f, "%lld", &n) != 1) break;
            for (long long i = 0; i < n; ++i) {
                long long idx;
                if (fscanf(f, "%lld %lld", &idx, &v) != 2) break;
                if (idx >= 0 && idx < (8 << 20)) {
                    if (size_t(idx) >= choices.size()) choices.resize(size_t(idx) + 1, 0);
                    choices[size_t(idx)] = uint8_t(v);
                }
            }
        } else break;
    }
    fclose(f);
    return true;
}

} // namespace detail

inline int worker_main(int argc, char** argv, const HarnessDef& h) {
    using namespace detail;
    uint64_t base_seed = 1, first = 0, stride = 1, count = 1, full_first = 0;
    int tier = 0;
    const char* replay_path = nullptr;
    int cpu = -1;
    bool dry = false;
    unsigned watchdog = 0;
    if (const char* e = getenv("VERIF_SEED")) base_seed = strtoull(e, nullptr, 10);
    for (int i = 1; i < argc; ++i) {
        std::string a = argv[i];
        if (a == "--runs" && i + 3 < argc) {
            first = strtoull(argv[i + 1], nullptr, 10); stride = strtoull(argv[i + 2], nullptr, 10);
            count = strtoull(argv[i + 3], nullptr, 10); i += 3;
        } else if (a == "--seed" && i + 1 < argc) base_seed = strtoull(argv[++i], nullptr, 10);
        else if (a == "--tier" && i + 1 < argc) tier = !strcmp(argv[++i], "thorough") ? 1 : 0;
        else if (a == "--full") ws().full = true;
        else if (a == "--dry") dry = true;
        else if (a == "--watchdog" && i + 1 < argc) watchdog = unsigned(atoi(argv[++i]));
        else if (a == "--full-first" && i + 1 < argc) full_first = strtoull(argv[++i], nullptr, 10);
        else if (a == "--replay" && i + 1 < argc) replay_path = argv[++i];
        else if (a == "--cpu" && i + 1 < argc) cpu = atoi(argv[++i]);
        else if (a == "--flavour" && i + 1 < argc) ws().flavour = argv[++i];
        else { fprintf(stderr, "unknown argument %s\n", a.c_str()); return 2; }
    }
    if (cpu >= 0) {
        cpu_set_t set; CPU_ZERO(&set); CPU_SET(cpu, &set);
        sched_setaffinity(0, sizeof set, &set);
    }
    ws().h = &h;
    rt_set_fatal(fatal_cb);
#if !defined(__SANITIZE_THREAD__)
    // (under TSan the death callback would run with runtime locks held; TSan
    // reports are noted through __tsan_on_report and handled at run end)
    if (__sanitizer_set_death_callback) __sanitizer_set_death_callback(death_cb);
#endif
    rt_start_watchdog(watchdog ? watchdog : h.watchdog_s);
    struct sigaction sa; memset(&sa, 0, sizeof sa);
    sa.sa_handler = signal_cb;
    sigaction(SIGABRT, &sa, nullptr);
#if !defined(__SANITIZE_ADDRESS__)
    // (ASan reports SEGV itself and then runs the death callback)
    sigaction(SIGSEGV, &sa, nullptr); sigaction(SIGBUS, &sa, nullptr);
    sigaction(SIGFPE, &sa, nullptr); sigaction(SIGILL, &sa, nullptr);
#endif
    std::set_terminate(terminate_cb);

    if (replay_path) {
        Workload w; std::vector<uint8_t> choices;
        bool has_seed = false; uint64_t rseed = 0;
        if (!read_replay(replay_path, w, choices, has_seed, rseed)) { fprintf(stderr, "cannot read %s\n", replay_path); return 2; }
        ws().full = true; ws().idx = 0; ws().seed = rseed;
        // "seed S": explicit workload, decisions re-sampled from seed S (used
        // while shrinking the workload); otherwise the explicit decision list
        run_one(h, w, rseed, has_seed ? nullptr : &choices);
        return 0;
    }
    bool full0 = ws().full;
    for (uint64_t k = 0; k < count; ++k) {
        uint64_t idx = first + k * stride;
        uint64_t seed = mix_seed(base_seed, h.id, idx);
        ws().idx = idx; ws().seed = seed;
        ws().full = full0 || idx < full_first;
        Rng plan(seed);
        Workload w;
        if (h.concurrent) {
            Rng sr(seed ^ 0x51a1c0f9ull);
            SimCfg c; default_simcfg(sr, c);
            if (h.tune_sim) h.tune_sim(sr, c);
            simcfg_to_vec(c, w.simv);
        }
        h.generate(plan, w, tier);
        if (dry) {
            // print the generated plan without executing it
            ws().w = &w; ws().full = true;
            emit_record(true, "dry", "", nullptr, true);
            ws().w = nullptr;
            continue;
        }
        run_one(h, w, seed, nullptr);
    }
    return 0;
}

} // namespace sim

#endif
