// sim/san_opts.cpp -- sanitizer defaults: classify hits (exit code 77), no
// LeakSanitizer (leaks are decided deterministically by the harness ledgers).
// Non-inline and `used`, otherwise the definitions are never emitted.
namespace sim { void rt_note_report(); }
extern "C" {
// TSan calls this hook after printing a report, with runtime locks held: do
// nothing but note it (halt_on_error=0; the worker checks at the end of the
// run, records the full plan and decision list, and exits with code 77).
__attribute__((used, visibility("default"))) void __tsan_on_report(void*) { sim::rt_note_report(); }
__attribute__((used, visibility("default"))) const char* __asan_default_options() {
    return "exitcode=77:halt_on_error=1:detect_leaks=0:abort_on_error=0:handle_abort=0:"
           "allocator_may_return_null=1:detect_stack_use_after_return=0";
}
__attribute__((used, visibility("default"))) const char* __ubsan_default_options() {
    return "exitcode=77:halt_on_error=1:print_stacktrace=1";
}
__attribute__((used, visibility("default"))) const char* __tsan_default_options() {
    return "exitcode=77:halt_on_error=0:report_signal_unsafe=0:report_thread_leaks=0:detect_deadlocks=0:history_size=4";
}
}
