// sim/shim_std.hpp -- force-included (-include) into every TU of a simulated
// harness, BEFORE any tlx header.  It makes the names std::thread, std::mutex,
// std::condition_variable, std::atomic, std::this_thread::yield and
// std::minstd_rand, *as written inside namespace tlx*, resolve to the
// simulator's shims, with zero edits to /repo: unqualified lookup of `std`
// from inside `tlx` finds the nested namespace `tlx::std` first, and own
// declarations of a namespace win over names reachable through its
// using-directive ([namespace.qual]/2).  Everything else falls through.
//
// Every shim performs the program's synchronisation on an embedded *real*
// ::std object (never contended, because the simulator serialises execution),
// so that ThreadSanitizer sees exactly the happens-before edges the code asked
// for and none from the simulator (whose hand-over is a raw futex in rt.cpp,
// compiled without instrumentation).
#ifndef VERIF_SIM_SHIM_STD_HPP
#define VERIF_SIM_SHIM_STD_HPP

#include <atomic>
#include <chrono>
#include <condition_variable>
#include <cstring>
#include <functional>
#include <future>
#include <memory>
#include <tuple>
#include <mutex>
#include <optional>
#include <shared_mutex>
#include <random>
#include <thread>
#include <type_traits>
#include <utility>

#include "rt.hpp"

namespace sim {

class CondVar;

class Mutex {
    ::std::mutex real_;
    MutexSt st_;
    friend class CondVar;

public:
    Mutex() noexcept { rt_mutex_init(&st_); }
    Mutex(const Mutex&) = delete;
    Mutex& operator=(const Mutex&) = delete;
    void lock() {
        rt_mutex_lock(&st_);
        real_.lock();
        rt_mutex_locked(&st_);
    }
    bool try_lock() {
        bool ok = rt_mutex_trylock(&st_);
        if (ok) real_.lock();
        rt_mutex_tried(&st_, ok);
        return ok;
    }
    void unlock() {
        real_.unlock();
        rt_mutex_unlock(&st_);
    }
};

class CondVar {
    CvSt st_;

public:
    CondVar() noexcept { rt_cv_init(&st_); }
    CondVar(const CondVar&) = delete;
    CondVar& operator=(const CondVar&) = delete;
    void notify_one() noexcept { rt_cv_notify(&st_, false); }
    void notify_all() noexcept { rt_cv_notify(&st_, true); }
    void wait(::std::unique_lock<Mutex>& lk) {
        Mutex* m = lk.mutex();
        m->real_.unlock();
        rt_cv_wait(&st_, &m->st_);
        m->real_.lock();
        rt_cv_waited(&st_);
    }
    template <class Pred>
    void wait(::std::unique_lock<Mutex>& lk, Pred pred) {
        while (!pred()) wait(lk);
    }
    // timed waits run in simulated time: the wait ends by a notification, a spurious wake-up, or
    // "the deadline passed", which happens when no thread can run any more (time jumps forward)
    template <class Rep, class Period>
    ::std::cv_status wait_for(::std::unique_lock<Mutex>& lk, const ::std::chrono::duration<Rep, Period>&) {
        Mutex* m = lk.mutex();
        m->real_.unlock();
        bool timed_out = rt_cv_wait_timed(&st_, &m->st_);
        m->real_.lock();
        rt_cv_waited(&st_);
        return timed_out ? ::std::cv_status::timeout : ::std::cv_status::no_timeout;
    }
    template <class Rep, class Period, class Pred>
    bool wait_for(::std::unique_lock<Mutex>& lk, const ::std::chrono::duration<Rep, Period>& d, Pred pred) {
        while (!pred())
            if (wait_for(lk, d) == ::std::cv_status::timeout) return pred();
        return true;
    }
    template <class Clock, class Dur>
    ::std::cv_status wait_until(::std::unique_lock<Mutex>& lk, const ::std::chrono::time_point<Clock, Dur>&) {
        return wait_for(lk, ::std::chrono::seconds(1));
    }
    template <class Clock, class Dur, class Pred>
    bool wait_until(::std::unique_lock<Mutex>& lk, const ::std::chrono::time_point<Clock, Dur>&, Pred pred) {
        return wait_for(lk, ::std::chrono::seconds(1), pred);
    }
};

// Further primitives a change to tlx might start using.  They are modelled on top of the two above so
// that such code still runs under the scheduler instead of blocking for real (which would hang a run).
class RecursiveMutex {
    Mutex m_;
    ::std::atomic<int> owner_{-1};   // relaxed: other threads only compare it with their own id (no edge for TSan)
    int depth_ = 0;                  // only touched by the owner
    bool mine() const { int t = rt_tid(); return t >= 0 && owner_.load(::std::memory_order_relaxed) == t; }

public:
    void lock() {
        if (mine()) { ++depth_; return; }
        m_.lock(); owner_.store(rt_tid(), ::std::memory_order_relaxed); depth_ = 1;
    }
    bool try_lock() {
        if (mine()) { ++depth_; return true; }
        if (!m_.try_lock()) return false;
        owner_.store(rt_tid(), ::std::memory_order_relaxed); depth_ = 1; return true;
    }
    void unlock() { if (--depth_ == 0) { owner_.store(-1, ::std::memory_order_relaxed); m_.unlock(); } }
};

class TimedMutex : public Mutex {
public:
    template <class Rep, class Period>
    bool try_lock_for(const ::std::chrono::duration<Rep, Period>&) { return try_lock(); }
    template <class Clock, class Dur>
    bool try_lock_until(const ::std::chrono::time_point<Clock, Dur>&) { return try_lock(); }
};

// readers are serialised like writers (fewer interleavings, never an illegal one)
class SharedMutex : public Mutex {
public:
    void lock_shared() { lock(); }
    bool try_lock_shared() { return try_lock(); }
    void unlock_shared() { unlock(); }
};

class CondVarAny {
    Mutex im_;
    CondVar cv_;

public:
    void notify_one() noexcept { { ::std::lock_guard<Mutex> g(im_); } cv_.notify_one(); }
    void notify_all() noexcept { { ::std::lock_guard<Mutex> g(im_); } cv_.notify_all(); }
    template <class Lock>
    void wait(Lock& lk) {
        ::std::unique_lock<Mutex> il(im_);
        lk.unlock();
        cv_.wait(il);
        il.unlock();
        lk.lock();
    }
    template <class Lock, class Pred>
    void wait(Lock& lk, Pred pred) { while (!pred()) wait(lk); }
    template <class Lock, class Rep, class Period>
    ::std::cv_status wait_for(Lock& lk, const ::std::chrono::duration<Rep, Period>& d) {
        ::std::unique_lock<Mutex> il(im_);
        lk.unlock();
        ::std::cv_status r = cv_.wait_for(il, d);
        il.unlock();
        lk.lock();
        return r;
    }
    template <class Lock, class Rep, class Period, class Pred>
    bool wait_for(Lock& lk, const ::std::chrono::duration<Rep, Period>& d, Pred pred) {
        while (!pred())
            if (wait_for(lk, d) == ::std::cv_status::timeout) return pred();
        return true;
    }
};

template <class T>
class Atomic {
    ::std::atomic<T> a_;
    mutable AtomicSt st_;
    static uint64_t bits(const T& v) noexcept {
        uint64_t b = 0;
        ::std::memcpy(&b, &v, sizeof(T) < 8 ? sizeof(T) : 8);
        return b;
    }

public:
    using value_type = T;
    Atomic() noexcept : a_() { rt_atomic_init(&st_); }
    Atomic(T v) noexcept : a_(v) { rt_atomic_init(&st_); } // NOLINT
    Atomic(const Atomic&) = delete;
    Atomic& operator=(const Atomic&) = delete;

    T load(::std::memory_order o = ::std::memory_order_seq_cst) const noexcept {
        T v = a_.load(o);
        rt_atomic_loaded(&st_, bits(v));
        return v;
    }
    void store(T v, ::std::memory_order o = ::std::memory_order_seq_cst) noexcept {
        a_.store(v, o);
        rt_atomic_written(&st_, false);
    }
    T exchange(T v, ::std::memory_order o = ::std::memory_order_seq_cst) noexcept {
        T r = a_.exchange(v, o);
        rt_atomic_written(&st_, true);
        return r;
    }
    bool compare_exchange_strong(T& e, T d,
                                 ::std::memory_order o = ::std::memory_order_seq_cst) noexcept {
        bool r = a_.compare_exchange_strong(e, d, o);
        if (r) rt_atomic_written(&st_, true); else rt_atomic_loaded(&st_, bits(e));
        return r;
    }
    bool compare_exchange_strong(T& e, T d, ::std::memory_order s,
                                 ::std::memory_order f) noexcept {
        bool r = a_.compare_exchange_strong(e, d, s, f);
        if (r) rt_atomic_written(&st_, true); else rt_atomic_loaded(&st_, bits(e));
        return r;
    }
    // the weak forms may fail spuriously (a seeded decision; tlx uses neither form today)
    bool compare_exchange_weak(T& e, T d,
                               ::std::memory_order o = ::std::memory_order_seq_cst) noexcept {
        if (rt_choice(2, 150) != 0) { rt_point(); return false; }
        return compare_exchange_strong(e, d, o);
    }
    bool compare_exchange_weak(T& e, T d, ::std::memory_order s,
                               ::std::memory_order f) noexcept {
        if (rt_choice(2, 150) != 0) { rt_point(); return false; }
        return compare_exchange_strong(e, d, s, f);
    }
    template <class U>
    T fetch_add(U d, ::std::memory_order o = ::std::memory_order_seq_cst) noexcept {
        T r = a_.fetch_add(d, o);
        rt_atomic_written(&st_, true);
        return r;
    }
    template <class U>
    T fetch_sub(U d, ::std::memory_order o = ::std::memory_order_seq_cst) noexcept {
        T r = a_.fetch_sub(d, o);
        rt_atomic_written(&st_, true);
        return r;
    }
    template <class U>
    T fetch_and(U d, ::std::memory_order o = ::std::memory_order_seq_cst) noexcept {
        T r = a_.fetch_and(d, o);
        rt_atomic_written(&st_, true);
        return r;
    }
    template <class U>
    T fetch_or(U d, ::std::memory_order o = ::std::memory_order_seq_cst) noexcept {
        T r = a_.fetch_or(d, o);
        rt_atomic_written(&st_, true);
        return r;
    }
    template <class U>
    T fetch_xor(U d, ::std::memory_order o = ::std::memory_order_seq_cst) noexcept {
        T r = a_.fetch_xor(d, o);
        rt_atomic_written(&st_, true);
        return r;
    }
    operator T() const noexcept { return load(); } // NOLINT
    T operator=(T v) noexcept { store(v); return v; }
    T operator++() noexcept { return fetch_add(1) + 1; }
    T operator++(int) noexcept { return fetch_add(1); }
    T operator--() noexcept { return fetch_sub(1) - 1; }
    T operator--(int) noexcept { return fetch_sub(1); }
    template <class U> T operator+=(U d) noexcept { return fetch_add(d) + d; }
    template <class U> T operator-=(U d) noexcept { return fetch_sub(d) - d; }
    template <class U> T operator&=(U d) noexcept { return fetch_and(d) & d; }
    template <class U> T operator|=(U d) noexcept { return fetch_or(d) | d; }
    bool is_lock_free() const noexcept { return a_.is_lock_free(); }
};

class AtomicFlag {
    Atomic<bool> f_;

public:
    AtomicFlag() noexcept : f_(false) {}
    AtomicFlag(const AtomicFlag&) = delete;
    bool test_and_set(::std::memory_order o = ::std::memory_order_seq_cst) noexcept { return f_.exchange(true, o); }
    void clear(::std::memory_order o = ::std::memory_order_seq_cst) noexcept { f_.store(false, o); }
    bool test(::std::memory_order o = ::std::memory_order_seq_cst) const noexcept { return f_.load(o); }
};

class Thread {
    ::std::thread real_;
    int tid_ = -1;

public:
    using id = ::std::thread::id;
    using native_handle_type = ::std::thread::native_handle_type;

    Thread() noexcept = default;
    Thread(const Thread&) = delete;
    Thread& operator=(const Thread&) = delete;
    Thread(Thread&& o) noexcept : real_(::std::move(o.real_)), tid_(o.tid_) { o.tid_ = -1; }
    Thread& operator=(Thread&& o) noexcept {
        real_ = ::std::move(o.real_); // terminates if joinable, as ::std::thread
        tid_ = o.tid_;
        o.tid_ = -1;
        return *this;
    }
    template <class F, class... A,
              class = typename ::std::enable_if<!::std::is_same<
                  typename ::std::decay<F>::type, Thread>::value>::type>
    explicit Thread(F&& f, A&&... a) {
        tid_ = rt_thread_create();
        int tid = tid_;
        real_ = ::std::thread(
            [tid](typename ::std::decay<F>::type&& fn,
                  typename ::std::decay<A>::type&&... args) {
                rt_thread_begin(tid);
                {
                    // the callable and its arguments die inside the simulated life of the thread (the
                    // originals in ::std::thread's own storage are only moved-from shells afterwards)
                    typename ::std::decay<F>::type f2(::std::move(fn));
                    ::std::tuple<typename ::std::decay<A>::type...> a2(::std::move(args)...);
                    ::std::apply([&f2](auto&&... x) { ::std::invoke(::std::move(f2), ::std::move(x)...); }, a2);
                }
                rt_thread_end(tid);
            },
            ::std::forward<F>(f), ::std::forward<A>(a)...);
        rt_thread_created(tid_);
    }
    ~Thread() = default; // ::std::thread terminates if still joinable
    bool joinable() const noexcept { return real_.joinable(); }
    void join() {
        int tid = tid_;
        rt_thread_join(tid);
        real_.join();
        tid_ = -1;
        rt_thread_joined(tid);
    }
    void detach() { rt_thread_detach(tid_); real_.detach(); tid_ = -1; }
    id get_id() const noexcept { return real_.get_id(); }
    native_handle_type native_handle() { return real_.native_handle(); }
    void swap(Thread& o) noexcept { real_.swap(o.real_); ::std::swap(tid_, o.tid_); }
    static unsigned hardware_concurrency() noexcept { return rt_hw_concurrency(); }
};

// std::async / std::future / std::promise / std::packaged_task / std::call_once inside namespace tlx:
// the real ones block in libstdc++ (outside the scheduler) and std::async starts an unsimulated thread.
// Here an async task runs on a simulated thread, launch::deferred runs in get()/wait(), and readiness is
// a flag under a simulated mutex + condition variable.
template <class R>
struct FutureState {
    Mutex m;
    CondVar cv;
    bool ready = false;
    bool retrieved = false;
    Thread th;                                  // async task, joined by whoever waits
    ::std::function<void()> deferred;
    typename ::std::conditional< ::std::is_void<R>::value, char, ::std::optional<typename ::std::conditional< ::std::is_void<R>::value, char, R>::type> >::type value{};
    ::std::exception_ptr error;
    void make_ready() { { ::std::lock_guard<Mutex> g(m); ready = true; } cv.notify_all(); }
    bool is_ready() { ::std::lock_guard<Mutex> g(m); return ready; }
    void wait() {
        if (deferred) { auto f = ::std::move(deferred); deferred = nullptr; f(); }
        {
            ::std::unique_lock<Mutex> l(m);
            while (!ready) cv.wait(l);
        }
        if (th.joinable()) th.join();
    }
};

template <class R>
class Future {
    using State = FutureState<R>;
    ::std::shared_ptr<State> st_;
    bool async_ = false;    // a future from std::async waits in its destructor

public:
    Future() = default;
    explicit Future(::std::shared_ptr<State> s, bool a = false) : st_(::std::move(s)), async_(a) {}
    Future(Future&& o) noexcept : st_(::std::move(o.st_)), async_(o.async_) { o.async_ = false; }
    Future& operator=(Future&& o) noexcept {
        if (this != &o) { if (st_ && async_) st_->wait(); st_ = ::std::move(o.st_); async_ = o.async_; o.async_ = false; }
        return *this;
    }
    ~Future() { if (st_ && async_) st_->wait(); }
    bool valid() const noexcept { return bool(st_); }
    void wait() const { st_->wait(); }
    template <class Rep, class Period>
    ::std::future_status wait_for(const ::std::chrono::duration<Rep, Period>& d) const {
        if (st_->deferred) return ::std::future_status::deferred;
        ::std::unique_lock<Mutex> l(st_->m);
        if (!st_->ready) st_->cv.wait_for(l, d);
        return st_->ready ? ::std::future_status::ready : ::std::future_status::timeout;
    }
    template <class Clock, class Dur>
    ::std::future_status wait_until(const ::std::chrono::time_point<Clock, Dur>&) const { return wait_for(::std::chrono::seconds(1)); }
    R get() {
        st_->wait();
        auto s = ::std::move(st_);
        async_ = false;
        if (s->error) ::std::rethrow_exception(s->error);
        return take(*s, ::std::is_void<R>());
    }
    template <class F>
    static Future make(::std::launch policy, F&& task) {
        auto sp = ::std::make_shared<State>();
        State* raw = sp.get();
        auto body = [raw, t = ::std::forward<F>(task)]() mutable {
            try { run(raw, t, ::std::is_void<R>()); } catch (...) { raw->error = ::std::current_exception(); }
            raw->make_ready();
        };
        if ((int(policy) & int(::std::launch::async)) != 0) raw->th = Thread(::std::move(body));
        else raw->deferred = ::std::move(body);
        return Future(::std::move(sp), true);
    }
    template <class T> static void run(State* sp, T& t, ::std::true_type) { t(); }
    template <class T> static void run(State* sp, T& t, ::std::false_type) { sp->value.emplace(t()); }

private:
    static void take(State&, ::std::true_type) {}
    static R take(State& s, ::std::false_type) { return static_cast<R>(::std::move(*s.value)); }
};

template <class R>
class Promise {
    using State = FutureState<R>;
    ::std::shared_ptr<State> st_ = ::std::make_shared<State>();
    void check() const { if (!st_) throw ::std::future_error(::std::future_errc::no_state); if (st_->is_ready()) throw ::std::future_error(::std::future_errc::promise_already_satisfied); }

public:
    Promise() = default;
    Promise(Promise&&) noexcept = default;
    Promise& operator=(Promise&& o) noexcept { abandon(); st_ = ::std::move(o.st_); return *this; }
    ~Promise() { abandon(); }
    void swap(Promise& o) noexcept { st_.swap(o.st_); }
    Future<R> get_future() {
        if (!st_) throw ::std::future_error(::std::future_errc::no_state);
        if (st_->retrieved) throw ::std::future_error(::std::future_errc::future_already_retrieved);
        st_->retrieved = true;
        return Future<R>(st_);
    }
    template <class U = R, class = typename ::std::enable_if<!::std::is_void<U>::value>::type>
    void set_value(const U& v) { check(); st_->value.emplace(v); st_->make_ready(); }
    template <class U = R, class = typename ::std::enable_if<!::std::is_void<U>::value>::type>
    void set_value(U&& v) { check(); st_->value.emplace(::std::move(v)); st_->make_ready(); }
    template <class U = R, class = typename ::std::enable_if< ::std::is_void<U>::value>::type>
    void set_value() { check(); st_->make_ready(); }
    void set_exception(::std::exception_ptr e) { check(); st_->error = e; st_->make_ready(); }

private:
    void abandon() {
        if (st_ && st_->retrieved && !st_->is_ready()) {
            st_->error = ::std::make_exception_ptr(::std::future_error(::std::future_errc::broken_promise));
            st_->make_ready();
        }
    }
};

template <class Sig> class PackagedTask;
template <class R, class... A>
class PackagedTask<R(A...)> {
    ::std::function<R(A...)> fn_;
    Promise<R> pr_;
    template <class... X> void call(::std::true_type, X&&... x) { fn_(::std::forward<X>(x)...); pr_.set_value(); }
    template <class... X> void call(::std::false_type, X&&... x) { pr_.set_value(fn_(::std::forward<X>(x)...)); }

public:
    PackagedTask() = default;
    template <class F, class = typename ::std::enable_if<!::std::is_same<typename ::std::decay<F>::type, PackagedTask>::value>::type>
    explicit PackagedTask(F&& f) : fn_(::std::forward<F>(f)) {}
    PackagedTask(PackagedTask&&) noexcept = default;
    PackagedTask& operator=(PackagedTask&&) noexcept = default;
    bool valid() const noexcept { return bool(fn_); }
    Future<R> get_future() { return pr_.get_future(); }
    void operator()(A... a) {
        try { call(::std::is_void<R>(), ::std::forward<A>(a)...); } catch (const ::std::future_error&) { throw; } catch (...) { pr_.set_exception(::std::current_exception()); }
    }
};

class OnceFlag {
    Mutex m_;
    bool done_ = false;
    template <class F, class... A> friend void call_once_shim(OnceFlag&, F&&, A&&...);

public:
    OnceFlag() noexcept = default;
    OnceFlag(const OnceFlag&) = delete;
};
template <class F, class... A>
void call_once_shim(OnceFlag& o, F&& f, A&&... a) {
    ::std::lock_guard<Mutex> g(o.m_);      // an exception leaves the flag unset, as std::call_once does
    if (o.done_) return;
    ::std::invoke(::std::forward<F>(f), ::std::forward<A>(a)...);
    o.done_ = true;
}

template <class F, class... A>
Future<typename ::std::invoke_result<typename ::std::decay<F>::type, typename ::std::decay<A>::type...>::type>
async_shim(::std::launch policy, F&& f, A&&... a) {
    using R = typename ::std::invoke_result<typename ::std::decay<F>::type, typename ::std::decay<A>::type...>::type;
    auto bound = [fn = typename ::std::decay<F>::type(::std::forward<F>(f)),
                  args = ::std::make_tuple(typename ::std::decay<A>::type(::std::forward<A>(a))...)]() mutable -> R {
        return ::std::apply(::std::move(fn), ::std::move(args));
    };
    return Future<R>::make(policy, ::std::move(bound));
}

// tlx's parallel sample sort seeds its sampling RNG from a heap address
// (std::minstd_rand rng(reinterpret_cast<uintptr_t>(samples.data()))): the
// one source of nondeterminism in the library that is not scheduling.  The
// shim ignores the address and takes its seed from the run's configuration.
class SeededMinstd {
    ::std::minstd_rand r_;
    bool degenerate_;

public:
    using result_type = ::std::minstd_rand::result_type;
    SeededMinstd() : r_(static_cast<result_type>(rt_next_rng_seed() | 1u)),
                     degenerate_(rt_rng_degenerate()) {}
    template <class S>
    explicit SeededMinstd(S) : SeededMinstd() {}
    static constexpr result_type min() { return ::std::minstd_rand::min(); }
    static constexpr result_type max() { return ::std::minstd_rand::max(); }
    result_type operator()() { return degenerate_ ? min() : r_(); }
    void seed(result_type = 1) {}
    void discard(unsigned long long n) { r_.discard(n); }
};

// std::atomic_thread_fence inside namespace tlx.  ThreadSanitizer does not model
// fences, so code that synchronises through "relaxed atomic + fence" would be
// reported as racy although it is correct.  Under TSan a fence is therefore
// annotated as a release and/or acquire operation on one global sync object: an
// over-approximation of the happens-before a fence can create (it can only hide
// a report, never invent one).  In every flavour the fence is a scheduling point.
#if defined(__SANITIZE_THREAD__)
extern "C" void __tsan_acquire(void* addr);
extern "C" void __tsan_release(void* addr);
#endif
inline char g_fence_sync_object;
inline void atomic_thread_fence_shim(::std::memory_order o) noexcept {
    ::std::atomic_thread_fence(o);
#if defined(__SANITIZE_THREAD__)
    if (o == ::std::memory_order_acquire || o == ::std::memory_order_consume || o == ::std::memory_order_acq_rel ||
        o == ::std::memory_order_seq_cst)
        __tsan_acquire(&g_fence_sync_object);
    if (o == ::std::memory_order_release || o == ::std::memory_order_acq_rel || o == ::std::memory_order_seq_cst)
        __tsan_release(&g_fence_sync_object);
#endif
    rt_point();
}

} // namespace sim

namespace tlx {
namespace std {
using namespace ::std;
using thread = ::sim::Thread;
using mutex = ::sim::Mutex;
using condition_variable = ::sim::CondVar;
using condition_variable_any = ::sim::CondVarAny;
using recursive_mutex = ::sim::RecursiveMutex;
using timed_mutex = ::sim::TimedMutex;
using shared_mutex = ::sim::SharedMutex;
using shared_timed_mutex = ::sim::SharedMutex;
using atomic_flag = ::sim::AtomicFlag;
template <class R> using future = ::sim::Future<R>;
template <class R> using promise = ::sim::Promise<R>;
template <class S> using packaged_task = ::sim::PackagedTask<S>;
using once_flag = ::sim::OnceFlag;
template <class F, class... A>
void call_once(once_flag& o, F&& f, A&&... a) { ::sim::call_once_shim(o, ::std::forward<F>(f), ::std::forward<A>(a)...); }
template <class F, class... A>
auto async(::std::launch policy, F&& f, A&&... a) { return ::sim::async_shim(policy, ::std::forward<F>(f), ::std::forward<A>(a)...); }
template <class F, class... A, class = typename ::std::enable_if<!::std::is_same<typename ::std::decay<F>::type, ::std::launch>::value>::type>
auto async(F&& f, A&&... a) { return ::sim::async_shim(::std::launch::async, ::std::forward<F>(f), ::std::forward<A>(a)...); }
template <class T>
using atomic = ::sim::Atomic<T>;
using minstd_rand = ::sim::SeededMinstd;
inline void atomic_thread_fence(::std::memory_order o) noexcept { ::sim::atomic_thread_fence_shim(o); }
namespace this_thread {
using namespace ::std::this_thread;
inline void yield() noexcept { ::sim::rt_yield(); }
template <class Rep, class Period>
inline void sleep_for(const ::std::chrono::duration<Rep, Period>&) { ::sim::rt_sleep(); }
template <class Clock, class Dur>
inline void sleep_until(const ::std::chrono::time_point<Clock, Dur>&) { ::sim::rt_sleep(); }
} // namespace this_thread
} // namespace std
} // namespace tlx

#endif
