// sim/shim_std.hpp -- force-included (-include) into every TU of a simulated
// harness, BEFORE any tlx header.  It makes the names std::thread, std::mutex,
// std::condition_variable, std::atomic, std::this_thread::yield and
// std::minstd_rand, *as written inside namespace tlx*, resolve to the
// simulator's shims, with zero edits to /repo: unqualified lookup of `std`
// from inside `tlx` finds the nested namespace `tlx::std` first, and own
// declarations of a namespace win over names reachable through its
// using-directive ([namespace.qual]/2).  Everything else falls through.
//
// Every shim performs the program's synchronisation on an embedded *real*
// ::std object (never contended, because the simulator serialises execution),
// so that ThreadSanitizer sees exactly the happens-before edges the code asked
// for and none from the simulator (whose hand-over is a raw futex in rt.cpp,
// compiled without instrumentation).
#ifndef VERIF_SIM_SHIM_STD_HPP
#define VERIF_SIM_SHIM_STD_HPP

#include <atomic>
#include <chrono>
#include <condition_variable>
#include <cstring>
#include <functional>
#include <future>
#include <memory>
#include <tuple>
#include <mutex>
#include <shared_mutex>
#include <random>
#include <thread>
#include <type_traits>
#include <utility>

#include "rt.hpp"

namespace sim {

class CondVar;

class Mutex {
    ::std::mutex real_;
    MutexSt st_;
    friend class CondVar;

public:
    Mutex() noexcept { rt_mutex_init(&st_); }
    Mutex(const Mutex&) = delete;
    Mutex& operator=(const Mutex&) = delete;
    void lock() {
        rt_mutex_lock(&st_);
        real_.lock();
        rt_mutex_locked(&st_);
    }
    bool try_lock() {
        bool ok = rt_mutex_trylock(&st_);
        if (ok) real_.lock();
        rt_mutex_tried(&st_, ok);
        return ok;
    }
    void unlock() {
        real_.unlock();
        rt_mutex_unlock(&st_);
    }
};

class CondVar {
    CvSt st_;

public:
    CondVar() noexcept { rt_cv_init(&st_); }
    CondVar(const CondVar&) = delete;
    CondVar& operator=(const CondVar&) = delete;
    void notify_one() noexcept { rt_cv_notify(&st_, false); }
    void notify_all() noexcept { rt_cv_notify(&st_, true); }
    void wait(::std::unique_lock<Mutex>& lk) {
        Mutex* m = lk.mutex();
        m->real_.unlock();
        rt_cv_wait(&st_, &m->st_);
        m->real_.lock();
        rt_cv_waited(&st_);
    }
    template <class Pred>
    void wait(::std::unique_lock<Mutex>& lk, Pred pred) {
        while (!pred()) wait(lk);
    }
    // timed waits run in simulated time: the wait ends by a notification, a spurious wake-up, or
    // "the deadline passed", which happens when no thread can run any more (time jumps forward)
    template <class Rep, class Period>
    ::std::cv_status wait_for(::std::unique_lock<Mutex>& lk, const ::std::chrono::duration<Rep, Period>&) {
        Mutex* m = lk.mutex();
        m->real_.unlock();
        bool timed_out = rt_cv_wait_timed(&st_, &m->st_);
        m->real_.lock();
        rt_cv_waited(&st_);
        return timed_out ? ::std::cv_status::timeout : ::std::cv_status::no_timeout;
    }
    template <class Rep, class Period, class Pred>
    bool wait_for(::std::unique_lock<Mutex>& lk, const ::std::chrono::duration<Rep, Period>& d, Pred pred) {
        while (!pred())
            if (wait_for(lk, d) == ::std::cv_status::timeout) return pred();
        return true;
    }
    template <class Clock, class Dur>
    ::std::cv_status wait_until(::std::unique_lock<Mutex>& lk, const ::std::chrono::time_point<Clock, Dur>&) {
        return wait_for(lk, ::std::chrono::seconds(1));
    }
    template <class Clock, class Dur, class Pred>
    bool wait_until(::std::unique_lock<Mutex>& lk, const ::std::chrono::time_point<Clock, Dur>&, Pred pred) {
        return wait_for(lk, ::std::chrono::seconds(1), pred);
    }
};

// Further primitives a change to tlx might start using.  They are modelled on top of the two above so
// that such code still runs under the scheduler instead of blocking for real (which would hang a run).
class RecursiveMutex {
    Mutex m_;
    ::std::atomic<int> owner_{-1};   // relaxed: other threads only compare it with their own id (no edge for TSan)
    int depth_ = 0;                  // only touched by the owner
    bool mine() const { int t = rt_tid(); return t >= 0 && owner_.load(::std::memory_order_relaxed) == t; }

public:
    void lock() {
        if (mine()) { ++depth_; return; }
        m_.lock(); owner_.store(rt_tid(), ::std::memory_order_relaxed); depth_ = 1;
    }
    bool try_lock() {
        if (mine()) { ++depth_; return true; }
        if (!m_.try_lock()) return false;
        owner_.store(rt_tid(), ::std::memory_order_relaxed); depth_ = 1; return true;
    }
    void unlock() { if (--depth_ == 0) { owner_.store(-1, ::std::memory_order_relaxed); m_.unlock(); } }
};

class TimedMutex : public Mutex {
public:
    template <class Rep, class Period>
    bool try_lock_for(const ::std::chrono::duration<Rep, Period>&) { return try_lock(); }
    template <class Clock, class Dur>
    bool try_lock_until(const ::std::chrono::time_point<Clock, Dur>&) { return try_lock(); }
};

// readers are serialised like writers (fewer interleavings, never an illegal one)
class SharedMutex : public Mutex {
public:
    void lock_shared() { lock(); }
    bool try_lock_shared() { return try_lock(); }
    void unlock_shared() { unlock(); }
};

class CondVarAny {
    Mutex im_;
    CondVar cv_;

public:
    void notify_one() noexcept { { ::std::lock_guard<Mutex> g(im_); } cv_.notify_one(); }
    void notify_all() noexcept { { ::std::lock_guard<Mutex> g(im_); } cv_.notify_all(); }
    template <class Lock>
    void wait(Lock& lk) {
        ::std::unique_lock<Mutex> il(im_);
        lk.unlock();
        cv_.wait(il);
        il.unlock();
        lk.lock();
    }
    template <class Lock, class Pred>
    void wait(Lock& lk, Pred pred) { while (!pred()) wait(lk); }
    template <class Lock, class Rep, class Period>
    ::std::cv_status wait_for(Lock& lk, const ::std::chrono::duration<Rep, Period>& d) {
        ::std::unique_lock<Mutex> il(im_);
        lk.unlock();
        ::std::cv_status r = cv_.wait_for(il, d);
        il.unlock();
        lk.lock();
        return r;
    }
    template <class Lock, class Rep, class Period, class Pred>
    bool wait_for(Lock& lk, const ::std::chrono::duration<Rep, Period>& d, Pred pred) {
        while (!pred())
            if (wait_for(lk, d) == ::std::cv_status::timeout) return pred();
        return true;
    }
};

template <class T>
class Atomic {
    ::std::atomic<T> a_;
    mutable AtomicSt st_;
    static uint64_t bits(const T& v) noexcept {
        uint64_t b = 0;
        ::std::memcpy(&b, &v, sizeof(T) < 8 ? sizeof(T) : 8);
        return b;
    }

public:
    using value_type = T;
    Atomic() noexcept : a_() { rt_atomic_init(&st_); }
    Atomic(T v) noexcept : a_(v) { rt_atomic_init(&st_); } // NOLINT
    Atomic(const Atomic&) = delete;
    Atomic& operator=(const Atomic&) = delete;

    T load(::std::memory_order o = ::std::memory_order_seq_cst) const noexcept {
        T v = a_.load(o);
        rt_atomic_loaded(&st_, bits(v));
        return v;
    }
    void store(T v, ::std::memory_order o = ::std::memory_order_seq_cst) noexcept {
        a_.store(v, o);
        rt_atomic_written(&st_, false);
    }
    T exchange(T v, ::std::memory_order o = ::std::memory_order_seq_cst) noexcept {
        T r = a_.exchange(v, o);
        rt_atomic_written(&st_, true);
        return r;
    }
    bool compare_exchange_strong(T& e, T d,
                                 ::std::memory_order o = ::std::memory_order_seq_cst) noexcept {
        bool r = a_.compare_exchange_strong(e, d, o);
        if (r) rt_atomic_written(&st_, true); else rt_atomic_loaded(&st_, bits(e));
        return r;
    }
    bool compare_exchange_strong(T& e, T d, ::std::memory_order s,
                                 ::std::memory_order f) noexcept {
        bool r = a_.compare_exchange_strong(e, d, s, f);
        if (r) rt_atomic_written(&st_, true); else rt_atomic_loaded(&st_, bits(e));
        return r;
    }
    bool compare_exchange_weak(T& e, T d,
                               ::std::memory_order o = ::std::memory_order_seq_cst) noexcept {
        return compare_exchange_strong(e, d, o);
    }
    bool compare_exchange_weak(T& e, T d, ::std::memory_order s,
                               ::std::memory_order f) noexcept {
        return compare_exchange_strong(e, d, s, f);
    }
    template <class U>
    T fetch_add(U d, ::std::memory_order o = ::std::memory_order_seq_cst) noexcept {
        T r = a_.fetch_add(d, o);
        rt_atomic_written(&st_, true);
        return r;
    }
    template <class U>
    T fetch_sub(U d, ::std::memory_order o = ::std::memory_order_seq_cst) noexcept {
        T r = a_.fetch_sub(d, o);
        rt_atomic_written(&st_, true);
        return r;
    }
    template <class U>
    T fetch_and(U d, ::std::memory_order o = ::std::memory_order_seq_cst) noexcept {
        T r = a_.fetch_and(d, o);
        rt_atomic_written(&st_, true);
        return r;
    }
    template <class U>
    T fetch_or(U d, ::std::memory_order o = ::std::memory_order_seq_cst) noexcept {
        T r = a_.fetch_or(d, o);
        rt_atomic_written(&st_, true);
        return r;
    }
    template <class U>
    T fetch_xor(U d, ::std::memory_order o = ::std::memory_order_seq_cst) noexcept {
        T r = a_.fetch_xor(d, o);
        rt_atomic_written(&st_, true);
        return r;
    }
    operator T() const noexcept { return load(); } // NOLINT
    T operator=(T v) noexcept { store(v); return v; }
    T operator++() noexcept { return fetch_add(1) + 1; }
    T operator++(int) noexcept { return fetch_add(1); }
    T operator--() noexcept { return fetch_sub(1) - 1; }
    T operator--(int) noexcept { return fetch_sub(1); }
    template <class U> T operator+=(U d) noexcept { return fetch_add(d) + d; }
    template <class U> T operator-=(U d) noexcept { return fetch_sub(d) - d; }
    template <class U> T operator&=(U d) noexcept { return fetch_and(d) & d; }
    template <class U> T operator|=(U d) noexcept { return fetch_or(d) | d; }
    bool is_lock_free() const noexcept { return a_.is_lock_free(); }
};

class AtomicFlag {
    Atomic<bool> f_;

public:
    AtomicFlag() noexcept : f_(false) {}
    AtomicFlag(const AtomicFlag&) = delete;
    bool test_and_set(::std::memory_order o = ::std::memory_order_seq_cst) noexcept { return f_.exchange(true, o); }
    void clear(::std::memory_order o = ::std::memory_order_seq_cst) noexcept { f_.store(false, o); }
    bool test(::std::memory_order o = ::std::memory_order_seq_cst) const noexcept { return f_.load(o); }
};

class Thread {
    ::std::thread real_;
    int tid_ = -1;

public:
    using id = ::std::thread::id;
    using native_handle_type = ::std::thread::native_handle_type;

    Thread() noexcept = default;
    Thread(const Thread&) = delete;
    Thread& operator=(const Thread&) = delete;
    Thread(Thread&& o) noexcept : real_(::std::move(o.real_)), tid_(o.tid_) { o.tid_ = -1; }
    Thread& operator=(Thread&& o) noexcept {
        real_ = ::std::move(o.real_); // terminates if joinable, as ::std::thread
        tid_ = o.tid_;
        o.tid_ = -1;
        return *this;
    }
    template <class F, class... A,
              class = typename ::std::enable_if<!::std::is_same<
                  typename ::std::decay<F>::type, Thread>::value>::type>
    explicit Thread(F&& f, A&&... a) {
        tid_ = rt_thread_create();
        int tid = tid_;
        real_ = ::std::thread(
            [tid](typename ::std::decay<F>::type&& fn,
                  typename ::std::decay<A>::type&&... args) {
                rt_thread_begin(tid);
                ::std::invoke(::std::move(fn), ::std::move(args)...);
                rt_thread_end(tid);
            },
            ::std::forward<F>(f), ::std::forward<A>(a)...);
        rt_thread_created(tid_);
    }
    ~Thread() = default; // ::std::thread terminates if still joinable
    bool joinable() const noexcept { return real_.joinable(); }
    void join() {
        int tid = tid_;
        rt_thread_join(tid);
        real_.join();
        tid_ = -1;
        rt_thread_joined(tid);
    }
    id get_id() const noexcept { return real_.get_id(); }
    native_handle_type native_handle() { return real_.native_handle(); }
    void swap(Thread& o) noexcept { real_.swap(o.real_); ::std::swap(tid_, o.tid_); }
    static unsigned hardware_concurrency() noexcept { return rt_hw_concurrency(); }
};

// std::async / std::future inside namespace tlx: the task runs on a simulated thread (a real
// std::async thread would run outside the scheduler).  launch::deferred runs the task in get()/wait().
template <class R>
class Future {
    struct State {
        Thread th;
        ::std::function<void()> deferred;
        typename ::std::conditional< ::std::is_void<R>::value, char, R>::type value{};
        ::std::exception_ptr error;
        bool done = false;
    };
    ::std::shared_ptr<State> st_;
    void finish() {
        if (!st_ || st_->done) return;
        if (st_->deferred) { auto f = ::std::move(st_->deferred); st_->deferred = nullptr; f(); }
        else if (st_->th.joinable()) st_->th.join();
        st_->done = true;
    }

public:
    Future() = default;
    Future(Future&&) noexcept = default;
    Future& operator=(Future&& o) noexcept { if (this != &o) { if (st_ && st_.use_count() == 1) finish(); st_ = ::std::move(o.st_); } return *this; }
    ~Future() { if (st_ && st_.use_count() == 1) finish(); }   // like a future from std::async, the last one waits
    bool valid() const noexcept { return bool(st_); }
    void wait() { finish(); }
    R get() {
        finish();
        auto s = ::std::move(st_);
        if (s->error) ::std::rethrow_exception(s->error);
        return static_cast<R>(::std::move(s->value));
    }
    template <class F>
    static Future make(::std::launch policy, F&& task) {
        Future fu;
        fu.st_ = ::std::make_shared<State>();
        State* sp = fu.st_.get();
        auto body = [sp, t = ::std::forward<F>(task)]() mutable {
            try { run(sp, t, ::std::is_void<R>()); } catch (...) { sp->error = ::std::current_exception(); }
        };
        if ((int(policy) & int(::std::launch::async)) != 0) sp->th = Thread(::std::move(body));
        else sp->deferred = ::std::move(body);
        return fu;
    }

private:
    template <class T> static void run(State* sp, T& t, ::std::true_type) { t(); }
    template <class T> static void run(State* sp, T& t, ::std::false_type) { sp->value = t(); }
};

template <class F, class... A>
Future<typename ::std::invoke_result<typename ::std::decay<F>::type, typename ::std::decay<A>::type...>::type>
async_shim(::std::launch policy, F&& f, A&&... a) {
    using R = typename ::std::invoke_result<typename ::std::decay<F>::type, typename ::std::decay<A>::type...>::type;
    auto bound = [fn = typename ::std::decay<F>::type(::std::forward<F>(f)),
                  args = ::std::make_tuple(typename ::std::decay<A>::type(::std::forward<A>(a))...)]() mutable -> R {
        return ::std::apply(::std::move(fn), ::std::move(args));
    };
    return Future<R>::make(policy, ::std::move(bound));
}

// tlx's parallel sample sort seeds its sampling RNG from a heap address
// (std::minstd_rand rng(reinterpret_cast<uintptr_t>(samples.data()))): the
// one source of nondeterminism in the library that is not scheduling.  The
// shim ignores the address and takes its seed from the run's configuration.
class SeededMinstd {
    ::std::minstd_rand r_;
    bool degenerate_;

public:
    using result_type = ::std::minstd_rand::result_type;
    SeededMinstd() : r_(static_cast<result_type>(rt_next_rng_seed() | 1u)),
                     degenerate_(rt_rng_degenerate()) {}
    template <class S>
    explicit SeededMinstd(S) : SeededMinstd() {}
    static constexpr result_type min() { return ::std::minstd_rand::min(); }
    static constexpr result_type max() { return ::std::minstd_rand::max(); }
    result_type operator()() { return degenerate_ ? min() : r_(); }
    void seed(result_type = 1) {}
    void discard(unsigned long long n) { r_.discard(n); }
};

// std::atomic_thread_fence inside namespace tlx.  ThreadSanitizer does not model
// fences, so code that synchronises through "relaxed atomic + fence" would be
// reported as racy although it is correct.  Under TSan a fence is therefore
// annotated as a release and/or acquire operation on one global sync object: an
// over-approximation of the happens-before a fence can create (it can only hide
// a report, never invent one).  In every flavour the fence is a scheduling point.
#if defined(__SANITIZE_THREAD__)
extern "C" void __tsan_acquire(void* addr);
extern "C" void __tsan_release(void* addr);
#endif
inline char g_fence_sync_object;
inline void atomic_thread_fence_shim(::std::memory_order o) noexcept {
    ::std::atomic_thread_fence(o);
#if defined(__SANITIZE_THREAD__)
    if (o == ::std::memory_order_acquire || o == ::std::memory_order_consume || o == ::std::memory_order_acq_rel ||
        o == ::std::memory_order_seq_cst)
        __tsan_acquire(&g_fence_sync_object);
    if (o == ::std::memory_order_release || o == ::std::memory_order_acq_rel || o == ::std::memory_order_seq_cst)
        __tsan_release(&g_fence_sync_object);
#endif
    rt_point();
}

} // namespace sim

namespace tlx {
namespace std {
using namespace ::std;
using thread = ::sim::Thread;
using mutex = ::sim::Mutex;
using condition_variable = ::sim::CondVar;
using condition_variable_any = ::sim::CondVarAny;
using recursive_mutex = ::sim::RecursiveMutex;
using timed_mutex = ::sim::TimedMutex;
using shared_mutex = ::sim::SharedMutex;
using shared_timed_mutex = ::sim::SharedMutex;
using atomic_flag = ::sim::AtomicFlag;
template <class R> using future = ::sim::Future<R>;
template <class F, class... A>
auto async(::std::launch policy, F&& f, A&&... a) { return ::sim::async_shim(policy, ::std::forward<F>(f), ::std::forward<A>(a)...); }
template <class F, class... A, class = typename ::std::enable_if<!::std::is_same<typename ::std::decay<F>::type, ::std::launch>::value>::type>
auto async(F&& f, A&&... a) { return ::sim::async_shim(::std::launch::async, ::std::forward<F>(f), ::std::forward<A>(a)...); }
template <class T>
using atomic = ::sim::Atomic<T>;
using minstd_rand = ::sim::SeededMinstd;
inline void atomic_thread_fence(::std::memory_order o) noexcept { ::sim::atomic_thread_fence_shim(o); }
namespace this_thread {
using namespace ::std::this_thread;
inline void yield() noexcept { ::sim::rt_yield(); }
template <class Rep, class Period>
inline void sleep_for(const ::std::chrono::duration<Rep, Period>&) { ::sim::rt_sleep(); }
template <class Clock, class Dur>
inline void sleep_until(const ::std::chrono::time_point<Clock, Dur>&) { ::sim::rt_sleep(); }
} // namespace this_thread
} // namespace std
} // namespace tlx

#endif
